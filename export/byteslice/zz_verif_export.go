//go:build verif

package byteslice

// VerifIndex exposes the size-class function to the verification harnesses.
func VerifIndex(n uint32) uint32 { return index(n) }
