//go:build verif

package ring

// VerifState exposes the cursors to the verification harness (state classification only).
func (rb *Buffer) VerifState() (r, w, size int, empty bool) { return rb.r, rb.w, rb.size, rb.isEmpty }
