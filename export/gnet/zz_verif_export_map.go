//go:build verif && linux && !gc_opt

package gnet

// VerifVariant names the registry implementation compiled in.
const VerifVariant = "map"

// SelfCheck verifies that the registry maps the connection's fd to itself.
func (r *VerifRegistry) SelfCheck(h any) string {
	c := h.(*conn)
	if r.cm.connMap[c.fd] != c {
		return "connMap[fd] does not hold the connection"
	}
	if c.gfd.Fd() != c.fd {
		return "gfd.Fd differs from conn.fd"
	}
	return ""
}

// RowsInUse is 0 for the map variant.
func (r *VerifRegistry) RowsInUse() int { return 0 }

// Cursor is meaningless for the map variant.
func (r *VerifRegistry) Cursor() (int, int) { return 0, 0 }
