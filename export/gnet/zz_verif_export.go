//go:build verif && linux

package gnet

import (
	"net"
)

// This file is injected by the verification framework through `go build -overlay` (it is
// never committed to the repository). It exposes package-internal functions to the
// harnesses under zzverif/ without changing them.

// VerifParseProtoAddr exposes parseProtoAddr.
func VerifParseProtoAddr(s string) (string, string, error) { return parseProtoAddr(s) }

// VerifDetermineEventLoops exposes determineEventLoops.
func VerifDetermineEventLoops(o *Options) int { return determineEventLoops(o) }

// VerifCreateListeners runs createListeners and returns the normalised options; the
// listeners are closed again.
func VerifCreateListeners(addrs []string, opts ...Option) (*Options, error) {
	lns, o, err := createListeners(addrs, opts...)
	for _, ln := range lns {
		if ln != nil {
			ln.close()
		}
	}
	return o, err
}

// VerifClientOptions returns the options a client normalised in NewClient.
func VerifClientOptions(c *Client) *Options { return c.opts }

// ---- registry (C14)

// VerifRegistry wraps one connMatrix (map-based or matrix, depending on the gc_opt tag).
type VerifRegistry struct {
	cm connMatrix
	el *eventloop
}

// VerifNewRegistry creates an initialised registry.
func VerifNewRegistry() *VerifRegistry {
	r := &VerifRegistry{}
	r.cm.init()
	eng := &engine{opts: &Options{}}
	r.el = &eventloop{engine: eng}
	return r
}

// Add registers a fresh connection under fd and returns it as an opaque handle.
func (r *VerifRegistry) Add(fd int, loopIdx int) any {
	c := &conn{fd: fd, loop: r.el}
	r.cm.addConn(c, loopIdx)
	return c
}

// Del removes the connection.
func (r *VerifRegistry) Del(h any) { r.cm.delConn(h.(*conn)) }

// Get looks fd up; nil interface if absent.
func (r *VerifRegistry) Get(fd int) any {
	if c := r.cm.getConn(fd); c != nil {
		return c
	}
	return nil
}

// Count is loadCount.
func (r *VerifRegistry) Count() int32 { return r.cm.loadCount() }

// Iterate visits connections; f gets the handle and its fd.
func (r *VerifRegistry) Iterate(f func(h any, fd int) bool) {
	r.cm.iterate(func(c *conn) bool { return f(c, c.fd) })
}

// FdOf returns the descriptor a handle was registered under.
func VerifFdOf(h any) int { return h.(*conn).fd }

// GfdOf returns the fields of the connection's packed identifier.
func VerifGfdOf(h any) (fd, loop, row, col int) {
	g := h.(*conn).gfd
	return g.Fd(), g.EventLoopIndex(), g.ConnMatrixRow(), g.ConnMatrixColumn()
}

// ---- load balancers (C15)

// VerifLB wraps one load balancer with n bare event loops.
type VerifLB struct {
	lb    loadBalancer
	loops []*eventloop
}

// VerifNewLB builds a balancer of the given policy with n loops (no pollers, no goroutines).
func VerifNewLB(policy LoadBalancing, n int) *VerifLB {
	v := &VerifLB{}
	switch policy {
	case RoundRobin:
		v.lb = new(roundRobinLoadBalancer)
	case LeastConnections:
		v.lb = new(leastConnectionsLoadBalancer)
	case SourceAddrHash:
		v.lb = new(sourceAddrHashLoadBalancer)
	}
	for i := 0; i < n; i++ {
		el := &eventloop{}
		el.connections.init()
		v.lb.register(el)
		v.loops = append(v.loops, el)
	}
	return v
}

// Next returns the index of the chosen loop, or -1 if the balancer returned a loop that was
// never registered.
func (v *VerifLB) Next(addr net.Addr) int {
	el := v.lb.next(addr)
	for i, l := range v.loops {
		if l == el {
			if el.idx != i {
				return -2
			}
			return i
		}
	}
	return -1
}

// AddCount changes loop i's connection count by delta (through the registry's own counter).
func (v *VerifLB) AddCount(i int, delta int32) { v.loops[i].connections.incCount(0, delta) }

// CountOf returns loop i's count.
func (v *VerifLB) CountOf(i int) int32 { return v.loops[i].countConn() }

// Len is the number of registered loops.
func (v *VerifLB) Len() int { return v.lb.len() }

// ---- engine internals used by engine harnesses

// VerifLoopIndex returns the index of the event loop that owns c (-1 if unknown).
func VerifLoopIndex(c Conn) int {
	if cc, ok := c.(*conn); ok && cc.loop != nil {
		return cc.loop.idx
	}
	return -1
}

// VerifNumLoops returns the number of event loops of a running engine.
func VerifNumLoops(e Engine) int {
	if e.eng == nil || e.eng.eventLoops == nil {
		return 0
	}
	return e.eng.eventLoops.len()
}

// VerifLoopCounts returns the registry count of each loop.
func VerifLoopCounts(e Engine) []int32 {
	var out []int32
	if e.eng == nil || e.eng.eventLoops == nil {
		return nil
	}
	e.eng.eventLoops.iterate(func(_ int, el *eventloop) bool {
		out = append(out, el.countConn())
		return true
	})
	return out
}
