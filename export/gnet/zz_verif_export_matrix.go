//go:build verif && linux && gc_opt

package gnet

// VerifVariant names the registry implementation compiled in.
const VerifVariant = "matrix"

// SelfCheck verifies that the connection's stored position leads back to itself.
func (r *VerifRegistry) SelfCheck(h any) string {
	c := h.(*conn)
	g, ok := r.cm.fd2gfd[c.fd]
	if !ok {
		return "fd2gfd has no entry"
	}
	if g != c.gfd {
		return "fd2gfd entry differs from conn.gfd"
	}
	row, col := c.gfd.ConnMatrixRow(), c.gfd.ConnMatrixColumn()
	if r.cm.table[row] == nil {
		return "row is nil"
	}
	if r.cm.table[row][col] != c {
		return "table slot does not hold the connection"
	}
	if c.gfd.Fd() != c.fd {
		return "gfd.Fd differs from conn.fd"
	}
	return ""
}

// RowsInUse counts allocated rows.
func (r *VerifRegistry) RowsInUse() int {
	n := 0
	for _, t := range r.cm.table {
		if t != nil {
			n++
		}
	}
	return n
}

// Cursor returns the next free slot.
func (r *VerifRegistry) Cursor() (int, int) { return r.cm.row, r.cm.column }
