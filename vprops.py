"""Property table of the gnet verification framework: per property the jobs (harness, build
flavour, arguments per tier), the evidence rule and the manifest texts. MANIFEST.json is
generated from this table by `./vcheck manifest`."""
import json
import os

ASSUME_COMMON = [
    "linux/amd64, epoll pollers only (kqueue/BSD/Windows sources are not executable here)",
    "schedules are sampled with real threads; x86-TSO memory model only",
    "the Go toolchain, race detector and kernel are trusted",
]

PROPS = {}


def prop(pid, level, rule, jobs, text, note, technique, design_ref, assumptions=None, coverage_extra=None):
    PROPS[pid] = {
        "level": level, "rule": rule, "jobs": jobs, "text": text, "note": note, "technique": technique,
        "design_ref": design_ref, "assumptions": (assumptions or []) + ASSUME_COMMON, "coverage_extra": coverage_extra or {},
    }


# ---------------------------------------------------------------------------------------
prop("C20", "exploration",
     "cases = integer arguments (neighbourhoods +-1024 of every power of two, seeded random values with every bit length equally likely, "
     "thorough: every int32 value and every size 1..2^31) and GFD field tuples (all 256x256 loop/row pairs); each is compared with a "
     "reference computed by iterated doubling; distinct_nontrivial counts distinct (region) classes exercised: one per power-of-two "
     "neighbourhood, per random bit length, per exhaustive sweep, per 32-bit (GOARCH=386) rerun",
     [
         {"harness": "arith", "args": {"quick": [], "thorough": []}, "timeout": {"quick": 300, "thorough": 1500}},
         {"harness": "arith", "arch": "386", "args": {"quick": ["--n", "2000000"], "thorough": ["--n", "20000000"]}, "timeout": {"quick": 300, "thorough": 2400}},
     ],
     "Reference-model monitor over the real functions: quick = dense neighbourhoods of all powers of two plus 10^7 random ints; thorough = "
     "exhaustive over the whole int32 range and the whole size-class domain (exhaustive=true in evidence), 64-bit part remains exploration; "
     "also executed as a 32-bit binary.",
     "references use only addition/comparison; the harness reads byteslice.index through a verif-tagged export file injected by overlay",
     "runtime reference-model monitor, exhaustive 32-bit sweep", "DESIGN.md §3 C20")


BUF_RULE = ("cases = operations of seed-generated sequences (5..200 operations each, fresh buffer per sequence) over the full public API with "
            "boundary-seeking sizes and hostile but contract-conforming io.Reader/io.Writer scripts; after EVERY operation the result, the counters and "
            "the whole content are compared with a plain FIFO reference model; a sequence stops at its first divergence. distinct_nontrivial = distinct "
            "(type, operation, abstract pre-state, argument class / reader-writer behaviour) tuples whose operation was checked")
prop("C09", "exploration", BUF_RULE + "; plus a breadth-first sweep over every (r, w, isEmpty, size) state reachable from ring.New(2|4|8) applying every operation in every state",
     [
         {"harness": "buf", "args": {"quick": ["--mode", "ring"], "thorough": ["--mode", "ring", "--n", "40000000"]}, "timeout": {"quick": 400, "thorough": 3000}},
         {"harness": "buf", "args": {"quick": ["--mode", "sweep"], "thorough": ["--mode", "sweep"]}, "timeout": {"quick": 300, "thorough": 600}},
         {"harness": "buf", "race": True, "tiers": ["thorough"], "args": {"thorough": ["--mode", "ring", "--n", "3000000"]}, "timeout": {"thorough": 3000}},
     ],
     "Reference-model monitor over ring.Buffer: every operation of millions of generated sequences is checked against a []byte FIFO, plus an exhaustive "
     "breadth-first sweep of the cursor state space of small rings (thorough: 4*10^7 operations and a checkptr/-race build).",
     "the model and the reader/writer scripts are mine; the cursor positions are read through a verif-tagged export file for state classification only",
     "runtime reference-model monitor (model-based operation sequences + BFS sweep of small-capacity state space)", "DESIGN.md §3 C09-C11")
prop("C10", "exploration", BUF_RULE,
     [
         {"harness": "buf", "args": {"quick": ["--mode", "elastic"], "thorough": ["--mode", "elastic", "--n", "40000000"]}, "timeout": {"quick": 400, "thorough": 3000}},
         {"harness": "buf", "args": {"quick": ["--mode", "eringbuf"], "thorough": ["--mode", "eringbuf", "--n", "20000000"]}, "timeout": {"quick": 400, "thorough": 3000}},
         {"harness": "buf", "race": True, "tiers": ["thorough"], "args": {"thorough": ["--mode", "elastic", "--n", "3000000"]}, "timeout": {"thorough": 3000}},
     ],
     "Reference-model monitor over elastic.Buffer (ring + linked list, static limits 1..64K) and elastic.RingBuffer (lazily pooled ring): every operation "
     "checked against a []byte FIFO; Peek(n) for every n class, Discard, Writev with empty and >1024 segments, ring/list switch-over.",
     "as C09", "runtime reference-model monitor (model-based operation sequences)", "DESIGN.md §3 C09-C11")
prop("C11", "exploration", BUF_RULE,
     [
         {"harness": "buf", "args": {"quick": ["--mode", "list"], "thorough": ["--mode", "list", "--n", "60000000"]}, "timeout": {"quick": 400, "thorough": 3000}},
         {"harness": "buf", "race": True, "tiers": ["thorough"], "args": {"thorough": ["--mode", "list", "--n", "3000000"]}, "timeout": {"thorough": 3000}},
     ],
     "Reference-model monitor over linkedlist.Buffer: list-of-segments model, caller memory is scribbled over after PushBack/PushFront, readers that "
     "return data with EOF / with an error / (0,nil), writers that fail midway.",
     "the segmentation produced by ReadFrom is not part of the statement: Len is checked exactly only while no ReadFrom data is buffered",
     "runtime reference-model monitor (model-based operation sequences)", "DESIGN.md §3 C09-C11")


prop("C13", "exploration",
     "cases = concurrent histories of the real queue recorded at the call boundary with one global atomic clock (call stamp before invoking, return stamp after): "
     "short histories (2-3 clients x 3-5 random Enqueue/Dequeue, optional sequential prefix, final sequential drain) judged by porcupine against a sequential FIFO model "
     "AND by polynomial checks (phantom / duplicate / lost value, real-time FIFO inversion, empty answer while a value was present for the whole call), long histories "
     "(1-4 producers, 1-3 consumers, ~5*10^5 operations) judged by the polynomial checks; Length/IsEmpty compared with the history at every quiescent point. The queue source "
     "is rewritten with a yield point before every atomic operation; per history one or two focus points pause 20-220 us. distinct_nontrivial = distinct global orders of "
     "yield-point hits (interleaving signatures) among histories in which operations of different clients overlapped in time, plus distinct long-history shapes",
     [
         {"harness": "lfq", "flavour": "points", "args": {"quick": ["--mode", "short"], "thorough": ["--mode", "short", "--n", "300000"]}, "timeout": {"quick": 600, "thorough": 3000}},
         {"harness": "lfq", "flavour": "points", "args": {"quick": ["--mode", "long"], "thorough": ["--mode", "long", "--n", "40"]}, "timeout": {"quick": 600, "thorough": 3000}},
         {"harness": "lfq", "flavour": "points", "race": True, "tiers": ["thorough"], "args": {"thorough": ["--mode", "short", "--n", "20000"]}, "timeout": {"thorough": 3000}},
     ],
     "Offline linearizability checking (porcupine v1.3.0) of recorded histories of the real lock-free queue under delay injection at every atomic operation, plus sound "
     "polynomial history checks that unique values make possible for long histories.",
     "histories are recorded outside the queue (client boundary); porcupine timeouts (10 s per history) count as inconclusive; schedules are sampled, not enumerated",
     "history recording + porcupine linearizability checker + polynomial history checks, delay injection at yield points", "DESIGN.md §3 C13")


prop("C14", "exploration",
     "cases = steps of seed-generated add / re-add of a just-removed number / remove(first|middle|last|random) / lookup / iterate / iterate-and-remove-everything / count "
     "histories over arbitrary descriptor numbers on the real connMatrix (built twice: map variant and gc_opt matrix variant), compared with a plain map after every step "
     "(full comparison incl. iteration while <= 64 live, else every 97th step), plus a 70000-entry population crossing the 65536-entry row boundary with removals on both "
     "sides. distinct_nontrivial = distinct (variant, operation, position class of the removed entry, population class, rows in use) tuples checked",
     [
         {"harness": "reg", "args": {"quick": [], "thorough": []}, "timeout": {"quick": 300, "thorough": 1800}},
         {"harness": "reg", "tags": ["gc_opt"], "args": {"quick": ["--n", "1200"], "thorough": ["--n", "20000"]}, "timeout": {"quick": 600, "thorough": 3000}},
         {"harness": "eng", "flavour": "shim", "args": {"quick": ["--mode", "c14"], "thorough": ["--mode", "c14"]}, "timeout": {"quick": 600, "thorough": 1800}},
         {"harness": "eng", "flavour": "shim", "tags": ["gc_opt"], "args": {"quick": ["--mode", "c14"], "thorough": ["--mode", "c14"]}, "timeout": {"quick": 600, "thorough": 1800}},
         {"harness": "eng", "flavour": "shim", "args": {"quick": ["--mode", "c04", "--n", "15"], "thorough": ["--mode", "c04", "--n", "60"]}, "timeout": {"quick": 900, "thorough": 3400}},
         {"harness": "eng", "flavour": "shim", "tags": ["gc_opt"], "args": {"quick": ["--mode", "c04", "--n", "15"], "thorough": ["--mode", "c04", "--n", "60"]}, "timeout": {"quick": 900, "thorough": 3400}},
     ],
     "Reference-model monitor over the package-internal registry in both build variants; lookups, counts, stored positions (fd2gfd/table/gfd agree) and iteration are "
     "checked after every step.",
     "the registry is reached through a verif-tagged export file injected by overlay; conn objects are bare (no sockets)",
     "runtime reference-model monitor (model-based operation sequences, both build variants)", "DESIGN.md §3 C14")

prop("C16", "exploration",
     "cases = address strings: well-formed ones from a grammar (7 schemes x host kinds {name, IPv4, bracketed IPv6, zones incl. '%' and '%25', empty host} x port kinds, unix paths with "
     "./..//, %, spaces, UTF-8) whose expected (scheme, endpoint) the generator knows without consulting net/url, and ill-formed ones by 11 seeded mutation operators (applied once or twice); "
     "plus option values (every 2^k and 2^k+-1 up to 2^62, <=0, random) through NewClient and createListeners(port 0), and Multicore/NumEventLoop combinations. "
     "distinct_nontrivial = distinct (grammar class) and (mutation class, accepted/rejected) and option groups exercised",
     [
         {"harness": "parse", "args": {"quick": [], "thorough": []}, "timeout": {"quick": 300, "thorough": 1800}},
     ],
     "Oracle over parseProtoAddr / createListeners / NewClient / determineEventLoops: totality (panics caught per input), exact expected result for grammar inputs, error classes the "
     "statement names, accepted mutants returned as written, normalised capacities powers of two >= request.",
     "inputs containing ?, # or @ are URL delimiters and are checked for totality and for 'one of seven schemes, non-empty endpoint' only; Go's native fuzzer is not used because "
     "it writes crashers into the package directory (i.e. into /repo)",
     "runtime oracle over grammar-generated and mutated inputs", "DESIGN.md §3 C16")


prop("C12", "exploration",
     "cases = Get/Put operations of seed-generated histories on fresh byteslice.Pool / ringbuffer.Pool instances: sizes {<=0, 1, 2^k-1, 2^k, 2^k+1, odd, random} up to 2^22 (thorough 2^26, "
     "plus a sequential handful up to 2^31-1), hostile Put shapes {whole, shorter length, tail b[k:], clipped head b[:k:k], zero-capacity view, foreign window of a larger array with canary "
     "margins}, runtime.GC twice at seed-chosen moments; concurrent histories from 2/4/16 goroutines on a shared pool. Monitor: a ledger (interval map) of outstanding address ranges - every "
     "Get must have len==n, cap>=n, be disjoint from every outstanding range and stay inside the range donated by the Put it came from; every held slice carries a handle-specific pattern "
     "verified at Put and at the end. In situ: the framework's own calls of the two pools are redirected (vinstr -pool) to wrappers that keep the same kind of ledger while the C02 (thorough also "
     "C01, C04) engine workloads run: a Get overlapping memory the framework obtained earlier and has not returned, or a pooled ring that is still held / not empty, is a violation. "
     "distinct_nontrivial = distinct (operation, size class or Put shape, fresh/recycled) tuples checked plus engine cases. Thorough adds -race (=> checkptr) and -asan builds",
     [
         {"harness": "pool", "args": {"quick": ["--mode", "all", "--n", "600"], "thorough": ["--mode", "all"]}, "timeout": {"quick": 600, "thorough": 3400}},
         {"harness": "pool", "race": True, "args": {"quick": ["--mode", "all", "--n", "80"], "thorough": ["--mode", "all", "--n", "900"]}, "timeout": {"quick": 600, "thorough": 3400}, "crash_is_violation": True},
         {"harness": "pool", "asan": True, "tiers": ["thorough"], "args": {"thorough": ["--mode", "all", "--n", "900"]}, "timeout": {"thorough": 3400}, "crash_is_violation": True},
         {"harness": "pool", "tiers": ["thorough"], "args": {"thorough": ["--mode", "huge"]}, "timeout": {"thorough": 1200}},
         {"harness": "eng", "flavour": "shim+pool", "args": {"quick": ["--mode", "c02", "--n", "5"], "thorough": ["--mode", "c02", "--n", "40"]}, "timeout": {"quick": 600, "thorough": 3400}},
         {"harness": "eng", "flavour": "shim+pool", "args": {"quick": ["--mode", "c01", "--n", "3"], "thorough": ["--mode", "c01", "--n", "40"]}, "timeout": {"quick": 600, "thorough": 3400}},
         {"harness": "eng", "flavour": "shim+pool", "args": {"quick": ["--mode", "c08", "--n", "4"], "thorough": ["--mode", "c08", "--n", "40"]}, "timeout": {"quick": 600, "thorough": 3400}},
         {"harness": "eng", "flavour": "shim+pool", "args": {"quick": ["--mode", "c17"], "thorough": ["--mode", "c17"]}, "timeout": {"quick": 600, "thorough": 3400}},
         {"harness": "addr", "args": {"quick": ["--n", "60000"], "thorough": ["--n", "600000"]}, "timeout": {"quick": 300, "thorough": 900}},
         {"harness": "eng", "flavour": "shim+pool", "tiers": ["thorough"], "args": {"thorough": ["--mode", "c04", "--n", "40"]}, "timeout": {"thorough": 3400}},
     ],
     "Ledger monitor over the real pools plus Go's checkptr/ASan instrumentation: aliasing is a relation between two live slices, so it is checked against the set of outstanding "
     "address ranges at every Get, not by sampling contents only.",
     "the ledger keeps every slice alive, so addresses cannot be recycled by the GC within a history; memory put into the pool while a third party still references it is outside this "
     "harness (C17 watches zone strings for that)",
     "runtime ledger monitor over generated Get/Put histories + race detector/checkptr + ASan", "DESIGN.md §3 C12")

prop("C15", "exploration",
     "cases = next() calls on the real load balancers for every N in 1..256: RoundRobin k*N calls (counts compared after every N), LeastConnections over seed-generated count vectors "
     "(unique minimum at a random position, ties), SourceAddrHash over IPv4/IPv6+zone/Unix/empty/random-byte addresses and 36 crafted strings whose CRC32 is 0x80000000, 0x7fffffff, "
     "0xffffffff, 0, 1, 0x80000001 (same string twice => same loop; every result must be a registered loop); rerun as a 32-bit binary. End to end on real reactor-mode engines (N in {1,2,3,4,7}, thorough "
     "up to 32; tcp and unix; LT and ET): connections are made one at a time and the loop on which OnOpen ran is compared with the policy's prediction - RoundRobin: every loop exactly k after k*N accepts "
     "(with closes in between), LeastConnections: the loop's count in the monitor's own open/close log at the quiescent point before the connect is minimal (closes create vectors an accept-only history "
     "never has), SourceAddrHash: reconnecting twice from the same bound local address (RST close, SO_REUSEADDR / re-bound Unix path) lands on the same loop; every callback of a connection runs on its "
     "loop. distinct_nontrivial = distinct (policy, N) and (engine, policy, N, network)",
     [
         {"harness": "lb", "args": {"quick": [], "thorough": []}, "timeout": {"quick": 300, "thorough": 900}},
         {"harness": "lb", "arch": "386", "args": {"quick": [], "thorough": []}, "timeout": {"quick": 300, "thorough": 900}},
         {"harness": "eng", "flavour": "shim", "args": {"quick": ["--mode", "c15"], "thorough": ["--mode", "c15"]}, "timeout": {"quick": 600, "thorough": 1800}},
     ],
     "Oracle over the package-internal balancers (reached through an injected export file) for all loop counts 1..256; the end-to-end part (the loop a connection is assigned "
     "to is the loop on which its callbacks run) is checked by the engine harness jobs of this property.",
     "bare event loops without pollers; counts are set through the registry's own counter",
     "runtime oracle over all loop counts, crafted hash inputs, 32-bit rerun", "DESIGN.md §3 C15")

prop("C17", "exploration",
     "cases = (IP, port, zone) triples: IPv4 4-byte and 16-byte forms, random/link-local/loopback/unspecified IPv6, ports {0,1,80,255,256,65535,random}, zones {none, every interface "
     "name present, every interface index as a decimal string, numbers without an interface} - run once on the machine's interfaces and once inside a private network namespace that has an interface "
     "whose name starts with digits (\"6to4\"); NetAddrToSockaddr followed by SockaddrToTCPOrUnixAddr / SockaddrToUDPAddr must return an "
     "equal IP, port and a well-formed zone with the same scope id; invalid IP lengths and unsupported networks must give nil; Unix paths round-trip. End to end: engines listening on 127.0.0.1:fixed, [::1]:fixed, 127.0.0.1:0, "
     "[::1%lo]:fixed, the machine's link-local address with its zone (when it has one; otherwise recorded as not exercised) and a Unix path serve 120 short connections each whose peers send their own LocalAddr "
     "in-band; OnOpen, every OnTraffic and OnClose compare RemoteAddr with it and LocalAddr with getsockname of the listener (Engine.Dup), while frames split across reads make the handler take pool slices and a "
     "goroutine keeps getting, filling and putting small pool slices. distinct_nontrivial = distinct (tcp|udp, address class, zone class) tuples and engine sub-cases",
     [
         {"harness": "addr", "args": {"quick": [], "thorough": []}, "timeout": {"quick": 300, "thorough": 1800}},
         {"harness": "addr", "wrap": ["/verif/selftest/netns_wrap.sh"], "args": {"quick": ["--n", "60000"], "thorough": ["--n", "600000"]}, "timeout": {"quick": 300, "thorough": 1800}},
         {"harness": "eng", "flavour": "shim", "args": {"quick": ["--mode", "c17"], "thorough": ["--mode", "c17"]}, "timeout": {"quick": 600, "thorough": 1800}},
         {"harness": "eng", "flavour": "shim", "race": True, "tiers": ["thorough"], "args": {"thorough": ["--mode", "c17"]}, "timeout": {"thorough": 1800}},
         {"harness": "eng", "flavour": "shim", "args": {"quick": ["--mode", "c08", "--n", "4"], "thorough": ["--mode", "c08", "--n", "40"]}, "timeout": {"quick": 600, "thorough": 1800}},
     ],
     "Round-trip oracle over pkg/socket's conversion functions; the truthful-reporting part (RemoteAddr/LocalAddr inside callbacks under churn) is checked by the engine harness jobs "
     "of this property.",
     "zone equality is judged by scope id (interface index), because index->name->index is the identity the kernel sees",
     "runtime round-trip oracle", "DESIGN.md §3 C17")


ENGINE_ASSUME = ["loopback TCP / Unix sockets; kernel segmentation is what loopback plus the shim's shortened reads/writes produce",
                 "liveness clauses are decided by the state-based stuck predicate of DESIGN §2.5 (wall clock only decides when to look)"]
prop("C01", "exploration",
     "cases = connections: per engine configuration (seed-shuffled from {LT, ET, ET+chunk 2K/8K} x {1,4 loops} x {reactor, reuseport} x {tcp, tcp6, unix} x {1K,4K,64K read buffer}, every 4th as gnet "
     "Client via Dial/Enroll) 12 (thorough 30) peers send a keyed stream (byte i = f(key,i)) of length {0..3, cap+-1, k*cap, random up to 200K} cut into {1-byte, 2-byte, small, cap-1, cap, cap+1, "
     "k*cap, one write, mixed} segments and end with close / CloseWrite / delayed close; in LT mode the shim additionally shortens read(2) and injects EAGAIN. The handler runs a PRNG-chosen "
     "program of Read/Next/Peek+Discard/Peek/Discard/WriteTo(short or failing writer)/nothing with boundary-seeking sizes in every callback. Oracle inside the callbacks: every byte obtained equals "
     "the stream at its offset, Peek does not consume, InboundBuffered drops by exactly the consumed count, consumed+InboundBuffered never decreases and equals the sum of read(2) results on the "
     "descriptor (shim), and at OnClose equals everything the peer sent; a stall is decided by the stuck predicate. distinct_nontrivial = distinct (configuration class, operation, argument class) "
     "and (configuration class, segmentation, end kind) tuples checked",
     [
         {"harness": "eng", "flavour": "shim", "args": {"quick": ["--mode", "c01"], "thorough": ["--mode", "c01"]}, "timeout": {"quick": 900, "thorough": 3400}},
         {"harness": "eng", "flavour": "shim", "tags": ["poll_opt"], "args": {"quick": ["--mode", "c01", "--n", "4"], "thorough": ["--mode", "c01", "--n", "40"]}, "timeout": {"quick": 900, "thorough": 3400}},
         {"harness": "eng", "flavour": "shim", "tags": ["gc_opt"], "args": {"quick": ["--mode", "c01", "--n", "3"], "thorough": ["--mode", "c01", "--n", "40"]}, "timeout": {"quick": 900, "thorough": 3400}},
         {"harness": "eng", "flavour": "shim", "arch": "386", "args": {"quick": ["--mode", "c01", "--n", "6"], "thorough": ["--mode", "c01", "--n", "48"]}, "timeout": {"quick": 900, "thorough": 3400}},
         {"harness": "eng", "flavour": "shim", "race": True, "tiers": ["thorough"], "args": {"thorough": ["--mode", "c01", "--n", "24"]}, "timeout": {"thorough": 3400}},
     ],
     "Online stream oracle inside the event handler of real engines over real sockets, with a syscall shim (LT only) widening the kernel's segmentation.",
     "content oracle is keyed by the peer address (server role) or by the Dial/Enroll context (client role)",
     "runtime monitor: keyed-stream content oracle + conservation against shim byte counts + stuck predicate", "DESIGN.md §3 C01", assumptions=ENGINE_ASSUME)


prop("C02", "exploration",
     "cases = connections: per engine configuration (as C01, plus 4K socket send buffers on a third of them) 8 (thorough 16) connections each run a PRNG-generated script: optional OnOpen reply, 3-25 "
     "synchronous operations (Write, Writev with empty and >1024 segments, ReadFrom(+hostile reader)+Flush) executed in Wake-driven batches inside OnTraffic, 0-2 goroutines issuing 1-20 "
     "AsyncWrite/AsyncWritev each, and in a quarter of the connections a burst of 1100-2600 alternating AsyncWrite/AsyncWritev issued back to back by one goroutine; every operation carries "
     "self-describing records [magic|producer|seq|len|payload=f(key,producer,seq)|crc32], sizes {0,1,small,WriteBufferCap+-1,2*cap,100K..1M}; the peer reads {immediately, trickling a bounded "
     "prefix, after a stall, after the server's OutboundBuffered exceeded 64K}; the shim turns write/writev into real short writes (LT, ET) and EAGAIN (LT). Oracle: inside callbacks "
     "OutboundBuffered == accepted - bytes the kernel took (shim); offline at the peer: the stream parses completely into intact records, per producer seq = 0,1,2,... in issue order, record counts "
     "equal the accepted operations; stalls are decided by the stuck predicate while the peer keeps reading. distinct_nontrivial = distinct (configuration class, operation kind, buffer-state class "
     "{direct, ring, ring-at-limit, list}, kernel-acceptance class {full, partial, none}) and (configuration class, peer schedule) tuples verified",
     [
         {"harness": "eng", "flavour": "shim", "args": {"quick": ["--mode", "c02"], "thorough": ["--mode", "c02"]}, "timeout": {"quick": 900, "thorough": 3400}},
         {"harness": "eng", "flavour": "shim", "tags": ["poll_opt"], "args": {"quick": ["--mode", "c02", "--n", "4"], "thorough": ["--mode", "c02", "--n", "40"]}, "timeout": {"quick": 900, "thorough": 3400}},
         {"harness": "eng", "flavour": "shim", "tags": ["gc_opt"], "args": {"quick": ["--mode", "c02", "--n", "3"], "thorough": ["--mode", "c02", "--n", "40"]}, "timeout": {"quick": 900, "thorough": 3400}},
         {"harness": "eng", "flavour": "shim", "arch": "386", "args": {"quick": ["--mode", "c02", "--n", "4"], "thorough": ["--mode", "c02", "--n", "48"]}, "timeout": {"quick": 900, "thorough": 3400}},
         {"harness": "eng", "flavour": "shim", "race": True, "tiers": ["thorough"], "args": {"thorough": ["--mode", "c02", "--n", "24"]}, "timeout": {"thorough": 3400}},
     ],
     "Peer-side record oracle over the received byte stream of real connections plus an in-callback conservation check against the shim's byte counts.",
     "cross-producer order is not constrained by the statement and is not checked; TCP peers use receive buffers >= 2*MSS (smaller ones make the loopback TCP crawl at persist-timer speed)",
     "runtime monitor: self-describing record stream oracle + conservation against shim byte counts + stuck predicate", "DESIGN.md §3 C02", assumptions=ENGINE_ASSUME)


LIFE_RULE = ("cases = connections of engine lives: per life (configuration seed-shuffled as in C01) 8-60 peers whose close cause is a function of (peer address, seed): peer FIN, peer RST, half-close, "
             "Close action from OnOpen (with and without reply) or from the k-th OnTraffic, Conn.Close / CloseWithCallback from another goroutine, EventLoop.Close inside OnTraffic of the same connection "
             "(with more data queued behind it) or of ANOTHER connection of the same loop, a Write that fails inside OnTraffic after the peer reset, FIN racing Conn.Close, Close action racing RST, engine "
             "shutdown, idle bystanders, and stale handles (AsyncWrite/Wake/Close on closed connections while their descriptor numbers are being reused by fresh connections). ")
prop("C04", "exploration",
     LIFE_RULE + "Oracle: a per-connection automaton advanced in the callbacks (OnOpen once, OnTraffic only in state open, OnClose once, nothing afterwards), OnClose error nil only if a local cause was armed "
     "and non-nil only if a remote/I-O cause was armed, late asynchronous writes must complete with an error, fresh connections must not be closed by requests on stale handles, and at quiescent points "
     "Engine.CountConnections() == opened - closed. distinct_nontrivial = distinct (configuration class, close plan, nil/non-nil error) tuples whose whole trace was checked",
     [
         {"harness": "eng", "flavour": "shim", "args": {"quick": ["--mode", "c04", "--n", "40"], "thorough": ["--mode", "c04"]}, "timeout": {"quick": 900, "thorough": 3400}},
         {"harness": "eng", "flavour": "shim", "tags": ["poll_opt"], "args": {"quick": ["--mode", "c04", "--n", "6"], "thorough": ["--mode", "c04", "--n", "60"]}, "timeout": {"quick": 900, "thorough": 3400}},
         {"harness": "eng", "flavour": "shim", "tags": ["gc_opt"], "args": {"quick": ["--mode", "c04", "--n", "4"], "thorough": ["--mode", "c04", "--n", "60"]}, "timeout": {"quick": 900, "thorough": 3400}},
         {"harness": "eng", "flavour": "shim", "arch": "386", "args": {"quick": ["--mode", "c04", "--n", "4"], "thorough": ["--mode", "c04", "--n", "40"]}, "timeout": {"quick": 900, "thorough": 3400}},
         {"harness": "eng", "flavour": "shim", "args": {"quick": ["--mode", "c14"], "thorough": ["--mode", "c14"]}, "timeout": {"quick": 600, "thorough": 1800}},
         {"harness": "eng", "flavour": "shim", "args": {"quick": ["--mode", "c06", "--n", "10"], "thorough": ["--mode", "c06", "--n", "60"]}, "timeout": {"quick": 900, "thorough": 3400}},
     ],
     "Online lifecycle automaton inside the event handler of real engines, driven by histories that mix every close cause, including closes requested from inside callbacks and races between causes.",
     "close causes are armed by the harness just before it provokes them; a cause provoked by the kernel on its own (none on loopback) would be reported as unexpected",
     "runtime monitor: per-connection lifecycle automaton + cause/error consistency + quiescent count check", "DESIGN.md §3 C04", assumptions=ENGINE_ASSUME)

prop("C05", "exploration",
     "cases = API calls: per engine life (5 quick / 40 thorough, configuration and load-balancing policy rotating, ticker on) 8-32 user goroutines fire AsyncWrite, AsyncWritev, Wake, Close, CloseWithCallback, "
     "SafeContext, SetSafeContext, Fd, Dup, the socket-option setters, EventLoop.Execute/Register/Enroll, Engine.CountConnections, Engine.Register (not with RoundRobin) at live, closing and already closed "
     "connections while 4 peers churn connections (some with RST) and finally two goroutines call Engine.Stop; in every second life a goroutine started in OnBoot calls CountConnections during start-up. "
     "Built with -race (GORACE halt_on_error=0, report blocks counted and classified by vcheck: a block with a gnet frame is a violation, a harness-only block breaks the check). In every engine run of "
     "every property the monitor also checks confinement: callbacks of one loop never overlap, always run on the same goroutine, a connection never changes loops. distinct_nontrivial = distinct "
     "(configuration class, API call kind) pairs exercised under the race detector",
     [
         {"harness": "eng", "flavour": "shim", "race": True, "args": {"quick": ["--mode", "c05"], "thorough": ["--mode", "c05"]}, "timeout": {"quick": 900, "thorough": 3400}},
         {"harness": "eng", "flavour": "shim", "race": True, "tags": ["gc_opt"], "tiers": ["thorough"], "args": {"thorough": ["--mode", "c05", "--n", "12"]}, "timeout": {"thorough": 3400}},
         {"harness": "eng", "flavour": "shim", "tags": ["poll_opt"], "args": {"quick": ["--mode", "c05", "--n", "4"], "thorough": ["--mode", "c05", "--n", "12"]}, "timeout": {"quick": 900, "thorough": 3400}},
         {"harness": "eng", "flavour": "shim", "args": {"quick": ["--mode", "c04", "--n", "6"], "thorough": ["--mode", "c04", "--n", "30"]}, "timeout": {"quick": 900, "thorough": 3400}},
     ],
     "Go race detector over a hostile workload aimed at the documented concurrency-safe API, plus a goroutine-identity/overlap monitor inside every callback.",
     "the detector judges only executed schedules; -race implies checkptr",
     "race detector on hostile API workload + online confinement monitor (goroutine identity, overlap counters)", "DESIGN.md §3 C05", assumptions=ENGINE_ASSUME)

prop("C06", "exploration",
     LIFE_RULE + "Shutdown is requested from {Engine.Stop, package Stop, Shutdown returned by OnOpen / OnTraffic / OnClose / OnTick} at {idle, during a connect storm, during traffic} with 0-50 connections, ticker on/off. "
     "Oracle over the event log: Run returns nil (Stop returns nil), every connection with OnOpen has exactly one OnClose logged before the return, OnShutdown exactly once, no callback of the engine after "
     "the return (peers and stale handles keep poking during a grace interval); a Run that has not returned is a violation only if two goroutine dumps 2 s apart are identical. distinct_nontrivial = distinct "
     "(configuration class, source, moment) tuples",
     [
         {"harness": "eng", "flavour": "shim", "args": {"quick": ["--mode", "c06", "--n", "18"], "thorough": ["--mode", "c06"]}, "timeout": {"quick": 900, "thorough": 3400}},
         {"harness": "eng", "flavour": "shim", "tags": ["poll_opt"], "args": {"quick": ["--mode", "c06", "--n", "6"], "thorough": ["--mode", "c06", "--n", "60"]}, "timeout": {"quick": 900, "thorough": 3400}},
     ],
     "Event-log checker over complete engine lives with every documented shutdown source at hostile moments.",
     "bounded time is decided by state (identical goroutine dumps), never by a wall-clock deadline alone",
     "runtime monitor: offline event-log checks (exactly-once, ordering against Run's return) + goroutine-dump deadlock predicate", "DESIGN.md §3 C06", assumptions=ENGINE_ASSUME)

prop("C07", "exploration",
     LIFE_RULE + "Three independent observers per engine life: (1) the descriptor ledger fed by the syscall shim (every accept4/socket/dup/epoll_create1/eventfd/close/read/write/epoll_ctl the framework issues): any "
     "operation on a number it has already closed, any touch of a descriptor the harness declared its own, any EBADF, and every descriptor still owned after Run returned (with creation site and whether it "
     "was ever registered in epoll); (2) /proc/self/fd identity snapshots before the engine started and after Run returned, and the Unix socket file; (3) three canary goroutines that keep opening pipes on "
     "just-freed numbers and verify inode and content; thorough adds a fourth that does not depend on the rewriting at all: the plain build under strace -f, every call failing with EBADF "
     "is a call on a number that is not open. distinct_nontrivial = distinct (configuration class, close plan, error kind) and (configuration class, shutdown source, moment) tuples observed",
     [
         {"harness": "eng", "flavour": "shim", "args": {"quick": ["--mode", "c07", "--n", "14"], "thorough": ["--mode", "c07"]}, "timeout": {"quick": 900, "thorough": 3400}},
         {"harness": "eng", "flavour": "shim", "tags": ["poll_opt"], "args": {"quick": ["--mode", "c07", "--n", "5"], "thorough": ["--mode", "c07", "--n", "60"]}, "timeout": {"quick": 900, "thorough": 3400}},
         {"harness": "eng", "flavour": "plain", "tiers": ["thorough"], "wrap": ["strace", "-f", "-q", "-e", "trace=desc,network", "-o", "{scratch}/strace-{idx}.log"], "post": "strace_ebadf",
          "args": {"thorough": ["--mode", "c07", "--n", "10"]}, "timeout": {"thorough": 3400}},
     ],
     "Descriptor ledger over a syscall shim + process descriptor table + canaries, during histories that close connections from every cause including from inside callbacks.",
     "ledger rules are one-sided (they can miss, they cannot false-alarm); a use-after-close is only visible if it executes",
     "runtime monitor: descriptor ledger over shimmed system calls + /proc/self/fd snapshots + canary descriptors", "DESIGN.md §3 C07", assumptions=ENGINE_ASSUME)


prop("C03", "exploration",
     "cases = iterations on a real netpoll.Poller whose loop has no source of wake-ups other than its eventfd (quick 20000, thorough 400000 per variant; default and poll_opt pollers): wait until the loop is blocked "
     "in epoll_wait(-1) (3/4 of the iterations) or start while it is still draining, then 1-8 producers each Trigger 1-3 uniquely numbered high/low-priority tasks (every 200th iteration a burst of 300-1500 per "
     "producer; half of the bursts are submitted by one task running on the loop itself, so that the urgent queue really holds > 1024 and the low-priority queue > 256 tasks when the loop gets to them); the poller and queue sources are rewritten with a yield point before every atomic / queue / eventfd / epoll operation and "
     "one or two focus points per iteration pause 0.1-0.5 ms. Oracle at quiescence: every accepted task ran exactly once, on the polling goroutine, high-priority tasks of one producer in issue order; tasks still "
     "pending after the watchdog with every producer returned and the loop inside the same blocking epoll_wait at three samples one second apart = lost wake-up (confirmed by an unrelated Trigger that makes them "
     "run). The engine-level clauses (AsyncWrite/AsyncWritev order at the peer, async callbacks exactly once, CloseWithCallback callback once, Wake = one OnTraffic; Register/Enroll results delivered exactly once also when the registration fails) are checked by the engine jobs (modes c02, c04, c19). "
     "distinct_nontrivial = distinct global orders of yield-point hits per iteration (interleaving signatures)",
     [
         {"harness": "wake", "flavour": "shim+points", "args": {"quick": [], "thorough": []}, "timeout": {"quick": 900, "thorough": 3400}},
         {"harness": "wake", "flavour": "shim+points", "tags": ["poll_opt"], "args": {"quick": ["--n", "8000"], "thorough": ["--n", "200000"]}, "timeout": {"quick": 900, "thorough": 3400}},
         {"harness": "eng", "flavour": "shim", "args": {"quick": ["--mode", "c02", "--n", "6"], "thorough": ["--mode", "c02", "--n", "30"]}, "timeout": {"quick": 900, "thorough": 3400}},
         {"harness": "eng", "flavour": "shim", "args": {"quick": ["--mode", "c04", "--n", "6"], "thorough": ["--mode", "c04", "--n", "30"]}, "timeout": {"quick": 900, "thorough": 3400}},
         {"harness": "eng", "flavour": "shim", "args": {"quick": ["--mode", "c19", "--n", "4"], "thorough": ["--mode", "c19", "--n", "24"]}, "timeout": {"quick": 900, "thorough": 3400}},
     ],
     "Exactly-once / ordering counters plus the state-based lost-wake-up predicate over the real poller under delay injection at the granularity of single atomic operations.",
     "threads are real (delay injection, not a scheduler): interleavings are sampled; x86-TSO only; kqueue pollers cannot run here",
     "runtime monitor: exactly-once counters + stuck predicate over shim state, delay injection at yield points", "DESIGN.md §3 C03")


prop("C08", "exploration",
     "cases = datagrams: per engine life (udp 127.0.0.1 / udp6 ::1, 1/2/4 loops, default and poll_opt builds) 1-16 client sockets (bound addresses in 4-byte and 16-byte IP form) each send 40-120 datagrams "
     "[magic|client|seq|len|payload=f(client,seq)] with sizes {0, header only, tiny, small, 1472, 1473, 8192, 65507}, windowed (1/4/16 per client, bytes in flight bounded) so that loopback does not drop. "
     "The handler checks in every OnTraffic that the readable bytes are exactly one datagram of this workload with the right length and payload (never a remainder of an earlier one), that RemoteAddr is the "
     "sending socket's own address, consumes {everything, a prefix, nothing, 7 bytes by Read} and answers with Write (to the sender) or SendTo (to another client's address, in resolved 16-byte form for half "
     "of the clients), each answer a unique record. Clients verify that they receive exactly the answers addressed to them, one intact datagram each, from the server's port. With the shim: OnTraffic count "
     "== successful recvfrom calls, accepted answers == sendto calls; a missing datagram without such evidence is inconclusive (UDP may drop). distinct_nontrivial = distinct (network, datagram size "
     "class, answer kind) and (network, consumption choice) tuples",
     [
         {"harness": "eng", "flavour": "shim", "args": {"quick": ["--mode", "c08"], "thorough": ["--mode", "c08"]}, "timeout": {"quick": 900, "thorough": 3400}},
         {"harness": "eng", "flavour": "shim", "tags": ["poll_opt"], "args": {"quick": ["--mode", "c08", "--n", "8"], "thorough": ["--mode", "c08", "--n", "40"]}, "timeout": {"quick": 900, "thorough": 3400}},
         {"harness": "eng", "flavour": "shim", "arch": "386", "args": {"quick": ["--mode", "c08", "--n", "4"], "thorough": ["--mode", "c08", "--n", "40"]}, "timeout": {"quick": 900, "thorough": 3400}},
         {"harness": "addr", "wrap": ["/verif/selftest/netns_wrap.sh"], "args": {"quick": ["--n", "60000"], "thorough": ["--n", "600000"]}, "timeout": {"quick": 300, "thorough": 900}},
     ],
     "Per-datagram identity oracle inside OnTraffic and at every client socket, cross-checked with the shim's recvfrom/sendto counts.",
     "datagram sizes up to the read buffer (64 KiB); loopback only", "runtime monitor: per-datagram identity oracle + shim call counts", "DESIGN.md §3 C08", assumptions=ENGINE_ASSUME)


prop("C18", "fault_enumeration",
     "cases = injected faults that were reached: for each configuration ({LT, ET} x {reactor, reuseport} x {tcp, unix}; quick: three of the six, rotating with the seed) and each fault of the list "
     "{read: ECONNRESET, ETIMEDOUT; write: EPIPE, ECONNRESET, ETIMEDOUT; writev: EPIPE, ECONNRESET; epoll_ctl MOD: ENOMEM, ENOENT; epoll_ctl DEL: ENOENT, ENOMEM; close: EINTR, EIO; epoll_ctl ADD of a "
     "connection being registered: ENOMEM, ENOSPC; recvfrom / sendto of a UDP listener: ECONNREFUSED, ENOBUFS (k <= 3, oracle: every sender is still served afterwards); retryable: read/write EAGAIN (LT only), epoll_wait EINTR, accept4 EINTR/ECONNABORTED/ECONNRESET} x call index k = 1..K (K=2 quick, 6 thorough), "
     "plus pairs (write EPIPE or read ECONNRESET followed by a failing epoll_ctl DEL or close during the tear-down of the same descriptor), one fresh engine with 6 echo connections whose peers verify "
     "the echoed stream byte by byte (2 of them bulk senders that create back-pressure). The shim returns the errno at the k-th matching call and records the descriptor it hit (= the victim). Oracle: "
     "victim closed with exactly one OnClose carrying a non-nil error (none if it never opened), its descriptor released exactly once (ledger), every other connection keeps verified echo progress, "
     "at most the victim is closed, a fresh echo connection works, no ledger alarm, no panic; retryable faults: no OnClose, no lost connection, no corrupted byte, the connection being accepted is served. "
     "evaluations counts only faults whose site was reached (unreached sites are listed in the evidence). distinct_nontrivial = distinct (configuration class, call, errno, framework call site) tuples reached",
     [
         {"harness": "eng", "flavour": "shim", "args": {"quick": ["--mode", "c18"], "thorough": ["--mode", "c18"]}, "timeout": {"quick": 1200, "thorough": 3500}},
         {"harness": "eng", "flavour": "shim", "tags": ["poll_opt"], "args": {"quick": ["--mode", "c18", "--n", "1"], "thorough": ["--mode", "c18", "--n", "3"]}, "timeout": {"quick": 1200, "thorough": 3500}},
     ],
     "System-call fault enumeration through the overlay-injected shim: every I/O-path call site of the current tree is reachable by (call class, index); each injected fault is judged by the "
     "lifecycle monitor, the peers' stream oracle, the descriptor ledger and a liveness probe.",
     "errno sets follow the statement (other accept4 errors shut the engine down by design and are exercised under C06)",
     "fault injection at the system-call boundary (shim plan) + lifecycle/stream/ledger monitors", "DESIGN.md §3 C18", assumptions=ENGINE_ASSUME)

prop("C19", "exploration",
     "cases = control-API calls: per engine life (configurations as C01, LeastConnections / SourceAddrHash) a PRNG mix of Validate, CountConnections, Dup, DupListener (matching / non-matching), "
     "Register (address context, net.Conn context, empty context), Stop is issued 40x on a never-started handle, then from 1-8 goroutines while running, continuing while Engine.Stop (live, already "
     "expired or soon-expiring context) is under way, and 60x after shutdown; EventLoop.Register/Enroll/Execute with nil arguments while running. Oracle: every result against the state model "
     "{never started, running, shutting down (any result, but no hang), shut down}; Stop()==nil implies OnShutdown and every OnClose already happened and Validate reports in-shutdown; Stop with an "
     "expired context returns the context's error and Run still returns; every Register channel yields exactly one value (a connection whose OnOpen ran, or an error) and is then closed - a channel "
     "still silent after 5.5 s with the engine shut down or two identical goroutine dumps is a violation; after shutdown no callback runs and the ledger holds no descriptor. "
     "distinct_nontrivial = distinct (call, engine state) pairs and result kinds checked",
     [
         {"harness": "eng", "flavour": "shim", "args": {"quick": ["--mode", "c19"], "thorough": ["--mode", "c19"]}, "timeout": {"quick": 1200, "thorough": 3500}},
         {"harness": "eng", "flavour": "shim", "tags": ["poll_opt"], "args": {"quick": ["--mode", "c19", "--n", "6"], "thorough": ["--mode", "c19", "--n", "60"]}, "timeout": {"quick": 1200, "thorough": 3500}},
         {"harness": "wake", "flavour": "shim+points", "args": {"quick": ["--n", "6000"], "thorough": ["--n", "100000"]}, "timeout": {"quick": 900, "thorough": 3400}},
     ],
     "State-model monitor over the control API with calls racing an ongoing shutdown.",
     "in the shutting-down state any result is accepted (the statement only demands no hang, panic or resurrection)",
     "runtime monitor: state-machine model of the control API + goroutine-dump hang predicate + descriptor ledger", "DESIGN.md §3 C19", assumptions=ENGINE_ASSUME)


# ---------------------------------------------------------------------------------------
NOT_APPLICABLE = []


# ---------------------------------------------------------------------------------------
# Scenarios added after the seeded-change rounds (DESIGN.md 8.5); appended to the evidence rule of the property.
RULE_ADDENDA = {
    "C03": "Added: every 16th iteration of the poller harness the requests arrive together with 5-128 ready descriptors of the harness in ONE "
           "epoll_wait batch (a gate descriptor's callback holds the loop meanwhile), so that batches of exactly the current event-list size "
           "occur; every 256th iteration the low-priority overflow race of Trigger is staged (a task on the loop fills the urgent queue beyond 1024 and "
           "holds the loop, an outside producer is paused by a focus point between the length test and its Enqueue, the loop is released and goes "
           "idle, then the producer goes on: its request must still wake the loop); the c02 engine job also issues empty AsyncWrite/AsyncWritev "
           "requests whose callbacks must run exactly once; Wake(callback) on already closed connections: an accepted request runs its callback "
           "exactly once.",
    "C02": "Added: operations that move no bytes (empty Write / Writev, ReadFrom of a reader at EOF followed by Flush, empty asynchronous "
           "writes), segment vectors of 1025-1300 and 2049-3000 entries, OnOpen replies of 1-3 MiB.",
    "C04": "Added: EventLoop.Close inside OnOpen, close requests inside OnClose, an empty datagram sent to a connected client UDP socket "
           "(a peer-induced close must carry an error), accepted sockets must be registered or closed at the quiescent point before shutdown; "
           "jobs in the c14 mode (a registration that fails must not be counted) and the c06 mode (every shutdown source, every OnClose "
           "returning Shutdown: the sweep still closes every connection exactly once).",
    "C05": "Added: the poll_opt build runs the same workload without -race (confinement and overlap monitors only): with -race Go's checkptr "
           "instrumentation stops that build at its first event (misaligned pointer conversion in netpoll.restorePollAttachment, the packed epoll "
           "event), so its data-race half cannot be observed with the race detector (DESIGN 8.2).",
    "C06": "Added: shutdown requested through the low-priority queue (> 1024 asynchronous writes pending), every OnClose returning Shutdown once "
           "armed, the connection whose OnClose asks for shutdown closed five ways (peer FIN, failed write inside OnTraffic, Close action, "
           "EventLoop.Close, Conn.Close), a non-retryable accept4 error in reactor and in SO_REUSEPORT mode with connections open, several "
           "listeners (Rotate), client engines (Client.Stop, twice, and after a callback returned Shutdown), Shutdown returned by the OnOpen of a "
           "connection brought in through Engine.Register; idle-loops and livelock predicates "
           "besides identical goroutine dumps.",
    "C07": "Added: failed starts (k-th epoll_create1 / eventfd / epoll_ctl ADD failing with EMFILE for Run and Client.Start; listen address in "
           "use for Run - tcp, tcp6, udp, SO_REUSEPORT - and for the second address of Rotate): Run returns the error, every descriptor "
           "created so far is closed exactly once, descriptors 0-2 are never touched; a duplicate of the listener (Engine.Dup / DupListener) and "
           "of a connection (Conn.Dup) is kept by the 'user' beyond the engine's life and must stay usable.",
    "C08": "Added: datagram sizes never exceed the REQUESTED read buffer, which is 64 KiB, 8 KiB, 2 KiB or a non-power-of-two (3000, 50000, "
           "65507, 1025), and include exactly that size and one byte less; every fourth life listens on the machine's link-local IPv6 address "
           "with its zone and the senders are bound to it (scoped RemoteAddr / SendTo targets); LocalAddr is compared with the listener's "
           "address in every event while a goroutine keeps getting, filling and returning small byte-pool slices; a 32-bit (GOARCH=386) job; "
           "the address-conversion harness inside a private namespace (interface re-created under the same name).",
    "C12": "Added: the in-situ ledger also reports a Put of a slice that is already in the pool (returned before and not handed out since) and "
           "runs under the c01, c02, c08 and c17 engine workloads in the quick tier; the address-conversion harness keeps converted addresses "
           "and re-reads them under pool traffic (a zone string living in returned memory changes).",
    "C14": "Added: iterations stopped by their callback after k entries, followed by 3-12 operations without any complete iteration; engine jobs "
           "(default and gc_opt) in which every injected epoll_ctl ADD failure of a connection being registered must leave "
           "Engine.CountConnections equal to opened minus closed; the connection-lifecycle lives of C04 (default and gc_opt), in which "
           "late requests on stale handles run while their descriptor numbers are re-used by new connections, whose registry entries must "
           "stay intact; the registry is filled to exactly / just beyond the 65536-entry row boundary and drained completely in four orders.",
    "C15": "Added: the 32-bit binary runs a RoundRobin history of 2^31+9 assignments (N=3); LeastConnections engine lives contain registrations "
           "that fail (injected epoll_ctl ADD error), after which the choice must still be minimal; under SourceAddrHash connections to one "
           "address brought in through Engine.Register (connection only, connection plus an unrelated address in the context, address only) "
           "must all land on one loop.",
    "C16": "Added: read, write and chunk requests drawn independently of each other (client and server).",
    "C17": "Added: a non-nil zero-length IP is an invalid length; the last 24 converted addresses are re-read after later conversions and "
           "byte-pool traffic (they must not change); inside the namespace an interface is deleted and re-created under the same name four "
           "times and '%name' must convert to the current index each time; the UDP lives of C08 (RemoteAddr = sender incl. zone, LocalAddr = "
           "listener) run as a job of this property too.",
    "C18": "Added: EAGAIN on the wake-up eventfd write that hands a new connection to its loop (retryable: the connection must be served); "
           "the write of the OnOpen reply (inside conn.open) failing with EPIPE / ECONNRESET; recvfrom EAGAIN on a UDP listener; "
           "after every fault Engine.CountConnections must equal opened minus closed; pairs are installed chained (the second fault is bound to "
           "the descriptor the first one hit); a poll_opt job in the quick tier.",
    "C19": "Added: Register with a net.Conn that is already closed or being closed by its owner; half of the live-context lives run a frequent, "
           "slow ticker (no callback may be executing when Stop returns nil or Run returns); two client-engine lives per run (Client.Stop after a "
           "callback returned Shutdown, Client.Stop twice); failed starts as in C07; a poll_opt job; Stop issued during OnBoot (expired context inside OnBoot, live context from a "
           "goroutine while OnBoot runs): the engine comes up and goes down in full; the poller-level wake-up harness of C03 (Register / "
           "Execute travel through the same task queues; leftovers beyond 256 low-priority tasks per round must be re-armed).",
}
for _pid, _txt in RULE_ADDENDA.items():
    PROPS[_pid]["rule"] += " " + _txt



def write_manifest(verif):
    checks = []
    for pid in sorted(PROPS):
        s = PROPS[pid]
        checks.append({
            "property_id": pid,
            "quick_cmd": "./vcheck run %s --tier quick" % pid,
            "thorough_cmd": "./vcheck run %s --tier thorough" % pid,
            "evidence_file": "/verif/evidence/%s.json" % pid,
            "replay_cmd_template": "./vcheck replay {path}",
            "engine": "vcheck",
            "level_claimed": {"category": s["level"], "text": s["text"], "design_ref": s["design_ref"]},
            "level_note": s["note"],
            "technique": s["technique"],
        })
    na = list(NOT_APPLICABLE)
    claimed = set(PROPS)
    for line in open(os.path.join(verif, "properties.jsonl")):
        p = json.loads(line)
        if p["id"] not in claimed and p["id"] not in {x["property_id"] for x in na}:
            na.append({"property_id": p["id"], "reason": "check not built yet (work in progress); no claim is made for this property at this commit"})
    m = {
        "version": 1,
        "setup_cmd": "./vcheck setup",
        "hooks": {
            "guard": "verif",
            "enable": "no hooks are committed to the repository: checks build /repo's current working tree with `go build -overlay` (tools/vinstr rewrites "
                      "the current sources into a scratch directory and injects pkg/vsys, export files and harnesses, all tagged `verif`) and `-tags verif`",
            "baseline_off_cmd": "cd /repo && GOFLAGS=-mod=mod go test -json -vet=off -count=1 -timeout 25m ./...",
            "source_commits": [],
            "add_only": True,
        },
        "engines": [
            {"name": "vcheck", "path": "/verif/vcheck", "serves_properties": sorted(PROPS),
             "kind_free_text": "runtime monitoring: overlay-instrumented builds of the real code driven by hostile workloads; monitors = reference models, "
                               "event-log checkers, descriptor ledger over a syscall shim, Go race detector, porcupine linearizability checker"},
        ],
        "checks": checks,
        "notes": "All checks decide by observing executions of the real code (see DESIGN.md). VERIF_SEED seeds every random choice; VERIF_REPO points the same "
                 "checks at another working tree (used only for self-validation against seeded mutants).",
        "not_applicable": na,
    }
    json.dump(m, open(os.path.join(verif, "MANIFEST.json"), "w"), indent=1)
    print("MANIFEST.json written: %d checks, %d not claimed" % (len(checks), len(na)))
    return 0
