#!/bin/bash
# usage: matrix.sh [ids...]   runs every stored seeded change against the quick check of the property it breaks
# (plus extra properties given in seeded/<id>/also.txt) and prints one line per (mutant, property).
cd /verif
ids="$@"; [ -z "$ids" ] && ids=$(ls seeded)
for id in $ids; do
  prop=${id%%-*}
  patch=seeded/$id/patch.diff
  [ -f seeded/$id/patch.rebased.diff ] && patch=seeded/$id/patch.rebased.diff
  for p in $prop $(cat seeded/$id/also.txt 2>/dev/null); do
    out=$(LINES_OUT=400 selftest/try_mutant.sh $patch $p 2>&1)
    nv=$(echo "$out" | grep -c '^VIOLATION')
    sig=$(echo "$out" | grep '^VIOLATION' | head -1 | sed 's/.*sig=//' | cut -c1-110)
    st=$(echo "$out" | grep 'vcheck: .*evaluations' | sed 's/.*\(violations.*\)/\1/' | cut -c1-80)
    if echo "$out" | grep -q 'PATCH DOES NOT APPLY'; then st="PATCH DOES NOT APPLY"; fi
    echo "MATRIX $id $p detected=$([ $nv -gt 0 ] && echo yes || echo NO) n=$nv :: $sig :: $st"
  done
done
