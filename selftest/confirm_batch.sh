#!/bin/bash
# usage: confirm_batch.sh "C01 A" "C01 B" ...   (4 at a time; log in /var/tmp/confirm.log)
printf '%s\n' "$@" | xargs -P 4 -I{} bash -c 'python3 /verif/selftest/confirm.py {} 2>&1 | tail -1 >> /var/tmp/confirm.log'
