#!/bin/bash
# usage: try_mutant.sh <patch.diff> <property id> [tier]  -- applies the patch to a scratch worktree
# of /repo's HEAD (outside /repo and /verif), runs the property's check against it, removes the worktree.
set -u
PATCH=$(readlink -f "$1"); PROP=$2; TIER=${3:-quick}
WT=/var/tmp/mut-$$-$PROP
git -C /repo worktree add --detach "$WT" >/dev/null 2>&1 || { echo "worktree failed"; exit 3; }
if ! git -C "$WT" apply "$PATCH" 2>/dev/null; then
  if ! git -C "$WT" apply --3way "$PATCH" 2>/dev/null; then
    echo "PATCH DOES NOT APPLY to current HEAD"; git -C /repo worktree remove --force "$WT"; exit 4
  fi
fi
( cd /verif && VERIF_REPO="$WT" ./vcheck run "$PROP" --tier "$TIER" 2>&1 | grep -v '^  \(built\|vinstr\)' | tail -${LINES_OUT:-12} )
RC=${PIPESTATUS[0]}
git -C /repo worktree remove --force "$WT"
rm -f /var/tmp/evidence-$PROP-*.json
exit 0
