#!/bin/bash
# For every "fixed" record of known_findings.jsonl: re-introduce the defect (reverse-apply the fix commit to a scratch
# worktree) and run the property's quick check against it; the check must report a violation again.
cd /verif
python3 - <<'PY' > /var/tmp/fixed_list.txt
import json
seen=set()
for l in open('/verif/known_findings.jsonl'):
    d=json.loads(l)
    if d.get('status')=='fixed' and (d['commit'],d['property']) not in seen:
        seen.add((d['commit'],d['property'])); print(d['commit'],d['property'])
PY
while read commit prop; do
  git -C /repo diff $commit $commit~1 > /var/tmp/revert-$commit.diff
  out=$(LINES_OUT=400 selftest/try_mutant.sh /var/tmp/revert-$commit.diff $prop 2>&1)
  nv=$(echo "$out" | grep -c '^VIOLATION')
  sig=$(echo "$out" | grep '^VIOLATION' | head -1 | sed 's/.*sig=//' | cut -c1-120)
  if echo "$out" | grep -q 'PATCH DOES NOT APPLY'; then sig="(reverse patch does not apply: later fix touches the same lines)"; fi
  echo "REVERT $commit $prop detected=$([ $nv -gt 0 ] && echo yes || echo NO) n=$nv :: $sig"
  rm -f /var/tmp/revert-$commit.diff
done < /var/tmp/fixed_list.txt
