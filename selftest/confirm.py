#!/usr/bin/env python3
"""confirm.py <ID> <A|B> [--no-suite]

Independently confirms a sub-agent's seeded change (from /tmp/wt/out/<ID>/) in a scratch worktree
outside /repo and /verif: the patch applies and builds, the repository's own suite passes with it
(in a private network namespace), the demonstration fails with it and passes without it.
On success the change is stored as /verif/seeded/<ID>-<X>/ (patch.diff, demo/, meta.json).
"""
import glob
import json
import os
import re
import shutil
import subprocess
import sys
import time

ID, X = sys.argv[1], sys.argv[2]
NOSUITE = "--no-suite" in sys.argv
# extra `go test` flags some demonstrations need
DEMO_FLAGS = {"C05-B": "-race", "C05-D": "-race", "C14-A": "-tags gc_opt", "C14-B": "-tags gc_opt", "C14-C": "-tags gc_opt", "C14-E": "-tags gc_opt"}.get("%s-%s" % (ID, X), "")
# environment some demonstrations need (a 32-bit build)
DEMO_ENV = {"C15-F": "GOARCH=386 "}.get("%s-%s" % (ID, X), "")
OUT = "/tmp/wt/out/%s" % ID
PATCH = "%s/%s.patch.diff" % (OUT, X)
DEMO = "%s/%s.demo" % (OUT, X)
ENV = dict(os.environ, GOFLAGS="-mod=mod", GOPROXY="off", GOSUMDB="off", GOTOOLCHAIN="local")
NETNS = ("ip link set lo up; ip link add eth0 type veth peer name vpeer; ip addr add 10.77.0.2/24 brd + dev eth0; "
         "ip addr add 10.77.0.3/24 dev vpeer; ip link set eth0 up; ip link set vpeer up; ip route add default dev eth0; "
         "ip -6 addr add fd00::2/64 dev eth0 2>/dev/null; sleep 3; ")


def sh(cmd, cwd=None, timeout=3000):
    try:
        r = subprocess.run(cmd, shell=True, cwd=cwd, env=ENV, capture_output=True, text=True, timeout=timeout)
        return r.returncode, (r.stdout + r.stderr)
    except subprocess.TimeoutExpired as e:
        return 124, "TIMEOUT " + str(e)


def netns(cmd, cwd, timeout=3000):
    return sh("unshare -n bash -c %s" % json.dumps(NETNS + "cd %s && %s" % (cwd, cmd)), timeout=timeout)


def base_commit():
    # the commit the patch was made against: try HEAD first, then the original snapshot
    for rev in ([os.environ["CONFIRM_BASE"]] if os.environ.get("CONFIRM_BASE") else ["main", "945ad24"]):
        wt = "/var/tmp/confirm-%s-%s-probe" % (ID, X)
        sh("git -C /repo worktree remove --force %s" % wt)
        sh("git -C /repo worktree add --detach %s %s" % (wt, rev))
        rc, _ = sh("git apply --check %s" % PATCH, cwd=wt)
        sh("git -C /repo worktree remove --force %s" % wt)
        if rc == 0:
            return rev
    return None


def pkg_dir(wt, pkgname):
    pkgname = re.sub(r"_test$", "", pkgname)
    if pkgname == "gnet":
        return "."
    for root, dirs, files in os.walk(wt):
        if "/.git" in root:
            continue
        for f in files:
            if f.endswith(".go") and not f.endswith("_test.go"):
                try:
                    head = open(os.path.join(root, f), errors="replace").read(4000)
                except OSError:
                    continue
                m = re.search(r"^package\s+(\w+)", head, re.M)
                if m and m.group(1) == pkgname:
                    return os.path.relpath(root, wt)
                break
    return None


def main():
    meta = {"id": "%s-%s" % (ID, X), "property": ID}
    try:
        meta["agent_meta"] = json.load(open("%s/%s.meta.json" % (OUT, X)))
    except Exception as e:  # noqa
        meta["agent_meta"] = {"error": str(e)}
    rev = base_commit()
    if rev is None:
        print("CONFIRM %s-%s: patch applies to neither HEAD nor the snapshot" % (ID, X))
        return 1
    meta["patch_base"] = rev
    wt = "/var/tmp/confirm-%s-%s" % (ID, X)
    sh("git -C /repo worktree remove --force %s" % wt)
    sh("git -C /repo worktree add --detach %s %s" % (wt, rev))
    ok = False
    try:
        # demo files
        tests = sorted(glob.glob(DEMO + "/*_test.go")) + sorted(glob.glob(DEMO + "/**/*_test.go", recursive=True))
        tests = list(dict.fromkeys(tests))
        if not tests:
            print("CONFIRM %s-%s: no *_test.go demo found (needs manual handling)" % (ID, X))
            meta["demo"] = "manual"
        placed = []
        for t in tests:
            src = open(t, errors="replace").read()
            m = re.search(r"^package\s+(\w+)", src, re.M)
            d = pkg_dir(wt, m.group(1)) if m else None
            if d is None:
                print("CONFIRM: cannot place", t)
                continue
            dst = os.path.join(wt, d, os.path.basename(t))
            shutil.copy(t, dst)
            names = re.findall(r"^func (Test\w+)\(", src, re.M)
            if names:  # helper files without test functions are only copied
                placed.append((d, dst, names))
        def run_demos():
            outs = []
            allpass = True
            for d, dst, names in placed:
                rx = "^(%s)$" % "|".join(names) if names else "."
                rc, out = netns("%sgo test %s -vet=off -count=1 -timeout 600s -run '%s' ./%s" % (DEMO_ENV, DEMO_FLAGS, rx, d), wt, timeout=900)
                outs.append((d, rc, out[-1500:]))
                if rc != 0:
                    allpass = False
            return allpass, outs
        # without the change
        p0, o0 = run_demos()
        meta["demo_without_change"] = "pass" if p0 else "FAIL"
        # with the change
        rc, out = sh("git apply %s" % PATCH, cwd=wt)
        if rc != 0:
            print("CONFIRM: patch failed to apply", out)
            return 1
        rc, out = sh("go build ./... && go vet -tags x ./pkg/math 2>/dev/null; go build ./...", cwd=wt)
        meta["builds"] = rc == 0
        p1, o1 = run_demos()
        meta["demo_with_change"] = "pass" if p1 else "fail"
        meta["demo_output_with_change"] = [o[2][-600:] for o in o1]
        # the suite, unedited, with the change (demo files removed)
        for d, dst, names in placed:
            os.remove(dst)
        suite = "skipped"
        if not NOSUITE:
            t0 = time.time()
            for attempt in range(3):
                rc, out = netns("go test -vet=off -count=1 -timeout 25m ./... 2>&1 | grep -v '^?' | grep -v 'logging/logger.go' | tail -60", wt, timeout=2400)
                bad = [l for l in out.splitlines() if l.startswith("FAIL") or l.lstrip().startswith("--- FAIL") or "panic:" in l]
                suite = "pass" if (rc == 0 and not bad and "ok " in out) else "FAIL"
                failed_tests = set(re.findall(r"--- FAIL: (Test\w+)", out))
                if suite == "pass" or not failed_tests or not failed_tests <= {"TestBindToDevice"}:
                    break
                # TestBindToDevice is flaky on the unchanged tree in a private netns (~10%): run again
                meta.setdefault("flaky_reruns", []).append(sorted(failed_tests))
            meta["suite_wall_s"] = round(time.time() - t0)
            meta["suite_tail"] = out[-1200:]
        meta["suite_with_change"] = suite
        ok = meta.get("builds") and meta["demo_without_change"] == "pass" and meta["demo_with_change"] == "fail" and suite in ("pass", "skipped")
        meta["confirmed"] = bool(ok) and suite == "pass"
        meta["what_i_ran"] = "scratch worktree %s at %s; demo tests %s run with `go test -run` inside a private netns without and with the patch; full suite `go test -vet=off -count=1 -timeout 25m ./...` inside a private netns with the patch" % (wt, rev, [os.path.basename(p[1]) for p in placed])
    finally:
        sh("git -C /repo worktree remove --force %s" % wt)
    dst = "/verif/seeded/%s-%s" % (ID, X)
    if ok:
        os.makedirs(dst, exist_ok=True)
        shutil.copy(PATCH, dst + "/patch.diff")
        if os.path.isdir(dst + "/demo"):
            shutil.rmtree(dst + "/demo")
        shutil.copytree(DEMO, dst + "/demo")
        am = meta.get("agent_meta", {})
        meta["breaks"] = ID
        meta["needs"] = am.get("needs", "")
        meta["summary"] = am.get("summary", "")
        json.dump(meta, open(dst + "/meta.json", "w"), indent=1)
    print("CONFIRM %s-%s: base=%s builds=%s demo_without=%s demo_with=%s suite=%s -> %s" % (
        ID, X, rev, meta.get("builds"), meta.get("demo_without_change"), meta.get("demo_with_change"), meta.get("suite_with_change"), "KEPT" if ok else "NOT KEPT"))
    if not ok:
        json.dump(meta, open("/var/tmp/confirm-%s-%s.failed.json" % (ID, X), "w"), indent=1)
    return 0 if ok else 1


if __name__ == "__main__":
    sys.exit(main())
