#!/bin/bash
# Runs "$@" inside a private network namespace that has interfaces whose names start with a digit
# ("6to4", "12": zone names that a decimal parser could mistake for numbers). Falls back to running the
# command directly when namespaces are not permitted.
if unshare -n true 2>/dev/null; then
  exec unshare -n bash -c 'ip link set lo up; ip link add 6to4 type dummy 2>/dev/null || ip link add 6to4 type veth peer name p6to4 2>/dev/null; ip link add 12 type dummy 2>/dev/null; ip link add 7seven type dummy 2>/dev/null; ip link set 6to4 up 2>/dev/null; export VERIF_NETNS=1; exec "$@"' _ "$@"
else
  exec "$@"
fi
