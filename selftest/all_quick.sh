#!/bin/bash
# usage: all_quick.sh [tier] [ids...]  -- runs every property's check on $VERIF_REPO (default /repo) and prints one
# summary line per property; anything other than "violations(unlisted)=0 ... broken=0" needs attention.
cd /verif
TIER=${1:-quick}; shift
IDS=${*:-C01 C02 C03 C04 C05 C06 C07 C08 C09 C10 C11 C12 C13 C14 C15 C16 C17 C18 C19 C20}
for p in $IDS; do
  out=$(./vcheck run $p --tier $TIER 2>&1); rc=$?
  echo "$out" | grep '^VIOLATION\|^INCONCLUSIVE\|^BROKEN' | cut -c1-300
  echo "rc=$rc $(echo "$out" | grep '^vcheck: .* evaluations=')"
done
