//go:build verif

// Harness addr decides the conversion part of C17 on pkg/socket.
package main

import (
	"fmt"
	"net"
	"os"
	"os/exec"
	"strconv"
	"strings"

	"golang.org/x/sys/unix"

	"github.com/panjf2000/gnet/v2/pkg/pool/byteslice"
	"github.com/panjf2000/gnet/v2/pkg/socket"
	"github.com/panjf2000/gnet/v2/zzverif/vlib"
)

type heldAddr struct {
	a    net.Addr
	want string
	desc string
}

type weird struct{}

func (weird) Network() string { return "weird" }
func (weird) String() string  { return "weird" }

// zoneIndex canonicalises a zone: interface name -> index, decimal string -> number, "" -> 0.
func zoneIndex(z string, ifs []net.Interface) (int, bool) {
	if z == "" {
		return 0, true
	}
	for _, i := range ifs {
		if i.Name == z {
			return i.Index, true
		}
	}
	for _, c := range z {
		if c < '0' || c > '9' {
			return 0, false
		}
	}
	n, err := strconv.Atoi(z)
	if err != nil {
		return 0, false
	}
	return n, true
}

func main() {
	res := vlib.Start("addr")
	r := vlib.NewRand(res.Seed)
	ifs, _ := net.Interfaces()
	zones := []string{"", "", ""}
	for _, i := range ifs {
		zones = append(zones, i.Name, strconv.Itoa(i.Index))
	}
	zones = append(zones, "77", "9", "1000", "65536", "4242", "12345678")
	res.Obs("interfaces", int64(len(ifs)))
	n := 300000
	if res.Thorough() {
		n = 6000000
	}
	if *vlib.FlagN > 0 {
		n = *vlib.FlagN
	}
	var evals int64
	held := make([]heldAddr, 24)
	for i := 0; i < n && (i%4096 != 0 || !res.TimeUp()); i++ {
		port := r.Pick(0, 1, 80, 255, 256, 65535, r.Intn(65536))
		var ip net.IP
		var class string
		switch r.Intn(7) {
		case 0:
			ip = net.IPv4(byte(r.Intn(256)), byte(r.Intn(256)), byte(r.Intn(256)), byte(r.Intn(256))).To4()
			class = "ipv4-4byte"
		case 1:
			ip = net.IPv4(byte(r.Intn(256)), byte(r.Intn(256)), byte(r.Intn(256)), byte(r.Intn(256)))
			class = "ipv4-16byte"
		case 2:
			ip = make(net.IP, 16)
			r.Fill(ip)
			ip[0] = 0x20
			class = "ipv6"
		case 3:
			ip = net.ParseIP("fe80::1")
			ip[15] = byte(r.Intn(256))
			class = "ipv6-linklocal"
		case 4:
			ip = net.IPv6loopback
			class = "ipv6-loopback"
		case 5:
			ip = net.IPv6zero
			class = "ipv6-zero"
		case 6:
			ip = net.IPv4zero.To4()
			class = "ipv4-zero"
		}
		zone := ""
		if ip.To4() == nil {
			zone = zones[r.Intn(len(zones))]
		}
		zc := "nozone"
		if zone != "" {
			if _, err := strconv.Atoi(zone); err == nil {
				zc = "zone-numeric"
			} else {
				zc = "zone-name"
			}
		}
		udp := r.Bool()
		kind := "tcp"
		if udp {
			kind = "udp"
		}
		evals++
		var back net.Addr
		var sa unix.Sockaddr
		p, msg := vlib.Catch(func() {
			if udp {
				sa = socket.NetAddrToSockaddr(&net.UDPAddr{IP: ip, Port: port, Zone: zone})
				back = socket.SockaddrToUDPAddr(sa)
			} else {
				sa = socket.NetAddrToSockaddr(&net.TCPAddr{IP: ip, Port: port, Zone: zone})
				back = socket.SockaddrToTCPOrUnixAddr(sa)
			}
		})
		desc := fmt.Sprintf("%s ip=%v port=%d zone=%q", kind, ip, port, zone)
		if p {
			res.Violate("C17 sockaddr conversion panic "+class+" "+zc, desc+": "+msg, map[string]any{"ip": ip.String(), "port": port, "zone": zone, "kind": kind})
			continue
		}
		if sa == nil || back == nil {
			res.Violate("C17 sockaddr conversion returned nil for a valid address "+class+" "+zc, desc, map[string]any{"ip": ip.String(), "port": port, "zone": zone, "kind": kind})
			continue
		}
		var bip net.IP
		var bport int
		var bzone string
		switch b := back.(type) {
		case *net.TCPAddr:
			bip, bport, bzone = b.IP, b.Port, b.Zone
		case *net.UDPAddr:
			bip, bport, bzone = b.IP, b.Port, b.Zone
		}
		if !bip.Equal(ip) || bport != port {
			res.Violate("C17 sockaddr roundtrip changed address or port "+class, fmt.Sprintf("%s -> %v", desc, back), map[string]any{"ip": ip.String(), "port": port, "zone": zone, "kind": kind})
			continue
		}
		wi, _ := zoneIndex(zone, ifs)
		gi, ok := zoneIndex(bzone, ifs)
		if !ok || gi != wi {
			res.Violate("C17 sockaddr roundtrip changed zone "+zc, fmt.Sprintf("%s -> zone %q (scope id %d, want %d)", desc, bzone, gi, wi), map[string]any{"ip": ip.String(), "port": port, "zone": zone, "kind": kind})
			continue
		}
		res.Distinct(kind + "|" + class + "|" + zc)
		if i < 3 {
			res.Sample(map[string]any{"addr": desc, "back": back.String()})
		}
		// the converted address stays what it is while later conversions run and other users of the byte pool come and
		// go (its zone string must not live in memory that has gone back to the pool)
		held[i%len(held)] = heldAddr{back, strings.Clone(back.String()), desc}
		if i%4 == 0 {
			b := byteslice.Get(1 + r.Intn(40))
			for j := range b {
				b[j] = 'x'
			}
			byteslice.Put(b)
		}
		if i%8 == 7 {
			for _, h := range held {
				if h.a != nil && h.a.String() != h.want {
					res.Violate("C17 converted address changed afterwards "+zc, fmt.Sprintf("%s was converted to %q; after later conversions and pool traffic it reads %q", h.desc, h.want, h.a.String()), map[string]any{"addr": h.desc})
					held = make([]heldAddr, len(held))
					break
				}
			}
		}
	}
	// history: an interface is deleted and created again under the same name (a restarted tunnel): its index changes,
	// and the conversion of "%name" must follow (only inside the private namespace of selftest/netns_wrap.sh)
	if os.Getenv("VERIF_NETNS") == "1" {
		ipLink := func(args ...string) error { return exec.Command("ip", append([]string{"link"}, args...)...).Run() }
		name := "zc0"
		_ = ipLink("del", name)
		add := func(n string) bool {
			return ipLink("add", n, "type", "dummy") == nil || ipLink("add", n, "type", "veth", "peer", "name", n+"p") == nil
		}
		ok := add(name)
		for round := 0; round < 4 && ok; round++ {
			ifi, err := net.InterfaceByName(name)
			if err != nil {
				break
			}
			evals++
			ip := net.ParseIP("fe80::1234")
			sa := socket.NetAddrToSockaddr(&net.UDPAddr{IP: ip, Port: 9, Zone: name})
			sa6, _ := sa.(*unix.SockaddrInet6)
			if sa6 == nil || int(sa6.ZoneId) != ifi.Index {
				res.Violate("C17 zone name converted to a stale interface index", fmt.Sprintf("interface %q has index %d now (re-created %d times); %%%s was converted to scope id %v", name, ifi.Index, round, name, sa), map[string]any{"round": round})
			}
			back, _ := socket.SockaddrToUDPAddr(&unix.SockaddrInet6{Port: 9, ZoneId: uint32(ifi.Index), Addr: [16]byte{0xfe, 0x80, 15: 1}}).(*net.UDPAddr)
			if back == nil || back.Zone != name {
				res.Violate("C17 interface index converted to a stale zone name", fmt.Sprintf("index %d is interface %q now; converted to %v", ifi.Index, name, back), map[string]any{"round": round})
			}
			// re-create: a filler interface takes the old index, the name comes back with a new one
			_ = ipLink("del", name)
			_ = add(fmt.Sprintf("zf%d", round))
			ok = add(name)
			res.Distinct("history|interface-recreated-under-the-same-name")
		}
		_ = ipLink("del", name)
		for round := 0; round < 4; round++ {
			_ = ipLink("del", fmt.Sprintf("zf%d", round))
		}
	}
	// invalid IP lengths and unsupported networks -> nil, never a panic
	for _, l := range []int{0, 1, 2, 3, 5, 6, 8, 15, 17, 20, 32} { // 0: a non-nil, zero-length IP (nil means "unspecified" and is valid)
		ip := make(net.IP, l)
		r.Fill(ip)
		for _, zone := range []string{"", "lo", "5"} {
			for k := 0; k < 3; k++ {
				evals++
				var sa unix.Sockaddr
				p, msg := vlib.Catch(func() {
					switch k {
					case 0:
						sa = socket.NetAddrToSockaddr(&net.TCPAddr{IP: ip, Port: 80, Zone: zone})
					case 1:
						sa = socket.NetAddrToSockaddr(&net.UDPAddr{IP: ip, Port: 80, Zone: zone})
					case 2:
						sa = socket.NetAddrToSockaddr(&net.IPAddr{IP: ip, Zone: zone})
					}
				})
				if p {
					res.Violate("C17 sockaddr conversion panic invalid-ip-length", fmt.Sprintf("IP of %d bytes: %s", l, msg), map[string]any{"len": l})
				} else if sa != nil {
					res.Violate("C17 invalid IP length converted to a socket address", fmt.Sprintf("IP of %d bytes (zone %q) -> %#v", l, zone, sa), map[string]any{"len": l, "zone": zone})
				}
			}
		}
		res.Distinct(fmt.Sprintf("invalid-ip-len|%d", l))
	}
	for _, a := range []net.Addr{weird{}, &net.UnixAddr{Name: "/x", Net: "foo"}, &net.UnixAddr{Name: "/x", Net: ""}} {
		evals++
		var sa unix.Sockaddr
		p, msg := vlib.Catch(func() { sa = socket.NetAddrToSockaddr(a) })
		if p {
			res.Violate("C17 sockaddr conversion panic unsupported-network", fmt.Sprintf("%T %v: %s", a, a, msg), nil)
		} else if sa != nil {
			res.Violate("C17 unsupported network converted to a socket address", fmt.Sprintf("%T net=%q -> %#v", a, a.Network(), sa), nil)
		}
	}
	res.Distinct("unsupported-network")
	{
		var b1, b2 net.Addr
		p, msg := vlib.Catch(func() {
			b1 = socket.SockaddrToTCPOrUnixAddr(nil)
			b2 = socket.SockaddrToUDPAddr(&unix.SockaddrUnix{Name: "/x"})
		})
		evals++
		if p {
			res.Violate("C17 sockaddr conversion panic nil-sockaddr", msg, nil)
		} else if b1 != nil || b2 != nil {
			res.Violate("C17 unsupported sockaddr converted to an address", fmt.Sprintf("%v %v", b1, b2), nil)
		}
	}
	// unix paths
	for i := 0; i < 2000; i++ {
		name := "/tmp/" + fmt.Sprintf("%x/%d.sock", r.U64(), i)
		if i%7 == 0 {
			name = "@abstract" + strconv.Itoa(i)
		}
		evals++
		sa := socket.NetAddrToSockaddr(&net.UnixAddr{Name: name, Net: "unix"})
		back := socket.SockaddrToTCPOrUnixAddr(sa)
		ua, ok := back.(*net.UnixAddr)
		if !ok || ua.Name != name || ua.Net != "unix" {
			res.Violate("C17 unix sockaddr roundtrip", fmt.Sprintf("%q -> %v", name, back), map[string]any{"name": name})
		}
	}
	res.Distinct("unix|path")
	res.Eval(evals)
	res.Finish()
}
