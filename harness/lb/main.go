//go:build verif

// Harness lb decides the policy part of C15 directly on the load balancers.
package main

import (
	"fmt"
	"hash/crc32"
	"net"
	"strconv"

	gnet "github.com/panjf2000/gnet/v2"
	"github.com/panjf2000/gnet/v2/zzverif/vlib"
)

type strAddr string

func (s strAddr) Network() string { return "x" }
func (s strAddr) String() string  { return string(s) }

// forge returns 4 bytes such that crc32.ChecksumIEEE(prefix+bytes) == target.
func forge(prefix []byte, target uint32) []byte {
	tbl := crc32.IEEETable
	var revIdx [256]byte
	for i := 0; i < 256; i++ {
		revIdx[tbl[i]>>24] = byte(i)
	}
	cur := ^crc32.ChecksumIEEE(prefix)
	w := ^target
	var idx [4]byte
	for i := 3; i >= 0; i-- {
		idx[i] = revIdx[w>>24]
		w = (w ^ tbl[idx[i]]) << 8
	}
	out := make([]byte, 4)
	s := cur
	for i := 0; i < 4; i++ {
		out[i] = byte(s) ^ idx[i]
		s = tbl[idx[i]] ^ (s >> 8)
	}
	return out
}

func genAddr(r *vlib.Rand) net.Addr {
	switch r.Intn(8) {
	case 0:
		return &net.TCPAddr{IP: net.IPv4(byte(r.Intn(256)), byte(r.Intn(256)), byte(r.Intn(256)), byte(r.Intn(256))), Port: r.Intn(65536)}
	case 1:
		ip := make(net.IP, 16)
		r.Fill(ip)
		return &net.TCPAddr{IP: ip, Port: r.Intn(65536), Zone: []string{"", "eth0", "lo", "7", "a%b"}[r.Intn(5)]}
	case 2:
		return &net.UnixAddr{Name: fmt.Sprintf("/tmp/sock-%d/%x.sock", r.Intn(100), r.U64()), Net: "unix"}
	case 3:
		return &net.UnixAddr{Name: "", Net: "unix"}
	case 4:
		return &net.UnixAddr{Name: "@", Net: "unix"}
	case 5:
		b := make([]byte, r.Intn(40))
		r.Fill(b)
		return strAddr(b)
	case 6:
		ip := make(net.IP, 16)
		r.Fill(ip)
		return &net.UDPAddr{IP: ip, Port: r.Intn(65536)}
	}
	return &net.TCPAddr{IP: net.IPv6loopback, Port: r.Intn(65536)}
}

func main() {
	res := vlib.Start("lb")
	r := vlib.NewRand(res.Seed)
	var evals int64
	maxN := 256
	rounds := 1
	if res.Thorough() {
		rounds = 20
	}
	// crafted addresses: CRC32 values at the sign boundary
	var crafted []net.Addr
	for _, t := range []uint32{0x80000000, 0x7fffffff, 0xffffffff, 0, 1, 0x80000001} {
		for k := 0; k < 3; k++ {
			prefix := []byte(fmt.Sprintf("/run/%d/", r.Intn(1000)))
			s := string(prefix) + string(forge(prefix, t))
			if crc32.ChecksumIEEE([]byte(s)) != t {
				res.Note("forge failed for %#x", t)
				continue
			}
			crafted = append(crafted, &net.UnixAddr{Name: s, Net: "unix"})
			crafted = append(crafted, strAddr(s))
		}
	}
	res.Obs("crafted_crc_addresses", int64(len(crafted)))
	for round := 0; round < rounds; round++ {
		for n := 1; n <= maxN; n++ {
			// ---- RoundRobin
			{
				lb := gnet.VerifNewLB(gnet.RoundRobin, n)
				k := r.Range(1, 3)
				cnt := make([]int, n)
				var window []int
				bad := false
				for i := 0; i < k*n && !bad; i++ {
					var idx int
					p, msg := vlib.Catch(func() { idx = lb.Next(genAddr(r)) })
					evals++
					if p {
						res.Violate("C15 RoundRobin panic", fmt.Sprintf("N=%d call %d: %s", n, i, msg), map[string]any{"policy": "rr", "n": n})
						bad = true
						break
					}
					if idx < 0 {
						res.Violate("C15 RoundRobin returned an unregistered loop", fmt.Sprintf("N=%d call %d", n, i), map[string]any{"policy": "rr", "n": n})
						bad = true
						break
					}
					cnt[idx]++
					window = append(window, idx)
					if (i+1)%n == 0 {
						for j, c := range cnt {
							if c != (i+1)/n {
								res.Violate("C15 RoundRobin uneven after k*N accepts", fmt.Sprintf("N=%d after %d accepts loop %d has %d, want %d (assignment order %v)", n, i+1, j, c, (i+1)/n, tail(window, 2*n)), map[string]any{"policy": "rr", "n": n, "k": k})
								bad = true
								break
							}
						}
					}
				}
				res.Distinct(fmt.Sprintf("rr N=%d", n))
			}
			// ---- LeastConnections
			{
				lb := gnet.VerifNewLB(gnet.LeastConnections, n)
				for t := 0; t < 6; t++ {
					// random count vector: mostly small numbers so that ties and unique minima both occur
					for i := 0; i < n; i++ {
						lb.AddCount(i, int32(r.Pick(0, 0, 1, 1, 2, 3, 5, 100))-lb.CountOf(i)+int32(r.Intn(2)))
					}
					if r.Chance(1, 2) { // make one loop the unique minimum at a random position
						i := r.Intn(n)
						lb.AddCount(i, -lb.CountOf(i))
						for j := 0; j < n; j++ {
							if j != i && lb.CountOf(j) == 0 {
								lb.AddCount(j, 1)
							}
						}
					}
					var idx int
					p, msg := vlib.Catch(func() { idx = lb.Next(genAddr(r)) })
					evals++
					if p {
						res.Violate("C15 LeastConnections panic", fmt.Sprintf("N=%d: %s", n, msg), map[string]any{"policy": "lc", "n": n})
						break
					}
					if idx < 0 {
						res.Violate("C15 LeastConnections returned an unregistered loop", fmt.Sprintf("N=%d", n), map[string]any{"policy": "lc", "n": n})
						break
					}
					min := lb.CountOf(0)
					vec := make([]int32, n)
					for i := 0; i < n; i++ {
						vec[i] = lb.CountOf(i)
						if vec[i] < min {
							min = vec[i]
						}
					}
					if lb.CountOf(idx) != min {
						if len(vec) > 40 {
							vec = vec[:40]
						}
						res.Violate("C15 LeastConnections chose a loop whose count is not minimal", fmt.Sprintf("N=%d chose loop %d with count %d, minimum is %d (counts %v..)", n, idx, lb.CountOf(idx), min, vec), map[string]any{"policy": "lc", "n": n})
						break
					}
				}
				res.Distinct(fmt.Sprintf("lc N=%d", n))
			}
			// ---- SourceAddrHash
			{
				lb := gnet.VerifNewLB(gnet.SourceAddrHash, n)
				addrs := append([]net.Addr{}, crafted...)
				for i := 0; i < 12; i++ {
					addrs = append(addrs, genAddr(r))
				}
				for _, a := range addrs {
					var i1, i2 int
					p, msg := vlib.Catch(func() { i1 = lb.Next(a); i2 = lb.Next(strAddr(a.String())) })
					evals++
					if p {
						res.Violate("C15 SourceAddrHash panic crc="+crcClass(a.String()), fmt.Sprintf("N=%d address %q (crc32 %#x): %s", n, a.String(), crc32.ChecksumIEEE([]byte(a.String())), msg), map[string]any{"policy": "hash", "n": n, "addr": a.String()})
						break
					}
					if i1 < 0 || i2 < 0 {
						res.Violate("C15 SourceAddrHash returned an unregistered loop", fmt.Sprintf("N=%d address %q", n, a.String()), map[string]any{"policy": "hash", "n": n, "addr": a.String()})
						break
					}
					if i1 != i2 {
						res.Violate("C15 SourceAddrHash not a function of the address string", fmt.Sprintf("N=%d address %q -> loop %d, same string again -> loop %d", n, a.String(), i1, i2), map[string]any{"policy": "hash", "n": n, "addr": a.String()})
						break
					}
				}
				res.Distinct(fmt.Sprintf("hash N=%d", n))
			}
		}
	}
	// a long history: more assignments than a 32-bit int can count (only where int has 32 bits; 2^63 cannot be run)
	if strconv.IntSize == 32 {
		n := 3
		lb := gnet.VerifNewLB(gnet.RoundRobin, n)
		counts := make([]int64, n)
		total := int64(1)<<31 + 9
		p, msg := vlib.Catch(func() {
			for i := int64(0); i < total; i++ {
				idx := lb.Next(nil)
				if idx < 0 || idx >= n {
					res.Violate("C15 RoundRobin returned an unregistered loop", fmt.Sprintf("N=%d call %d (long history)", n, i), map[string]any{"policy": "rr", "n": n})
					return
				}
				counts[idx]++
			}
		})
		evals += total
		if p {
			res.Violate("C15 RoundRobin panic", fmt.Sprintf("N=%d after %d assignments (long history on a platform with 32-bit int): %s", n, counts[0]+counts[1]+counts[2], msg), map[string]any{"policy": "rr", "n": n})
		} else {
			for j := range counts {
				if d := counts[j] - total/int64(n); d < 0 || d > 1 {
					res.Violate("C15 RoundRobin uneven after a long history", fmt.Sprintf("N=%d after %d assignments: per-loop %v", n, total, counts), map[string]any{"policy": "rr", "n": n})
					break
				}
			}
		}
		res.Distinct("rr long-history > 2^31 assignments (32-bit int)")
	}
	res.Eval(evals)
	res.Sample(map[string]any{"policies": "RoundRobin k*N calls, LeastConnections random count vectors, SourceAddrHash incl. crafted CRC32 values 0x80000000/0x7fffffff", "N": "1..256"})
	res.Finish()
}

func crcClass(s string) string {
	c := crc32.ChecksumIEEE([]byte(s))
	switch {
	case c == 0x80000000:
		return "0x80000000"
	case c > 0x80000000:
		return ">0x80000000"
	}
	return "<0x80000000"
}

func tail(v []int, n int) []int {
	if len(v) > n {
		return v[len(v)-n:]
	}
	return v
}
