//go:build verif

// Harness arith decides C20: power-of-two helpers, the byte-slice pool's size-class index
// and GFD packing, against reference implementations that use no bit tricks.
package main

import (
	"fmt"
	"math/bits"
	"sync"
	"sync/atomic"

	"github.com/panjf2000/gnet/v2/internal/gfd"
	gmath "github.com/panjf2000/gnet/v2/pkg/math"
	"github.com/panjf2000/gnet/v2/pkg/pool/byteslice"
	"github.com/panjf2000/gnet/v2/zzverif/vlib"
)

const intBits = bits.UintSize

// maxPow is the largest power of two representable in int.
const maxPow = 1 << (intBits - 2)

// reference implementations by iterated doubling ---------------------------------

func refCeil(n int) (v int, panics bool) {
	if n <= 2 {
		return 2, false
	}
	p := 2
	for p < n {
		if p == maxPow {
			return 0, true // no such int
		}
		p += p
	}
	return p, false
}

func refFloor(n int) int {
	if n <= 2 {
		return n
	}
	p := 2
	for p <= n-p { // p*2 <= n without overflow
		p += p
	}
	return p
}

func refIsPow(n int) bool {
	if n <= 0 {
		return false
	}
	p := 1
	for p < n {
		if p == maxPow {
			return false
		}
		p += p
	}
	return p == n
}

func refClosest(n int) int { // 1 <= n <= maxPow
	if refIsPow(n) {
		return n
	}
	lo := refFloor(n)
	hi, _ := refCeil(n)
	if n-lo < hi-n {
		return lo
	}
	return hi
}

func refIndex(n uint32) uint32 { // 1 <= n <= 2^31
	var idx uint32
	for c := uint64(1); c < uint64(n); c += c {
		idx++
	}
	return idx
}

func rangeClass(n int) string {
	switch {
	case n < 0:
		return "negative"
	case n <= 2:
		return "le2"
	case uint64(n) < 1<<31:
		return "int32"
	case uint64(n) < 1<<32:
		return "bit32"
	default:
		return "gt32bit"
	}
}

type checker struct {
	res   *vlib.Result
	evals atomic.Int64
}

func (c *checker) one(n int) {
	c.evals.Add(1)
	// Ceil
	wantC, wantPanic := refCeil(n)
	var gotC int
	p, msg := vlib.Catch(func() { gotC = gmath.CeilToPowerOfTwo(n) })
	if p != wantPanic {
		c.res.Violate(fmt.Sprintf("C20 CeilToPowerOfTwo panic=%v want=%v range=%s", p, wantPanic, rangeClass(n)),
			fmt.Sprintf("CeilToPowerOfTwo(%d): panicked=%v (%s), expected panic=%v", n, p, msg, wantPanic), map[string]any{"fn": "Ceil", "n": n})
	} else if !p && gotC != wantC {
		c.res.Violate("C20 CeilToPowerOfTwo mismatch range="+rangeClass(n),
			fmt.Sprintf("CeilToPowerOfTwo(%d)=%d, reference %d", n, gotC, wantC), map[string]any{"fn": "Ceil", "n": n})
	}
	// Floor
	wantF := refFloor(n)
	var gotF int
	if p, msg := vlib.Catch(func() { gotF = gmath.FloorToPowerOfTwo(n) }); p {
		c.res.Violate("C20 FloorToPowerOfTwo panic range="+rangeClass(n), fmt.Sprintf("FloorToPowerOfTwo(%d) panicked: %s", n, msg), map[string]any{"fn": "Floor", "n": n})
	} else if gotF != wantF {
		c.res.Violate("C20 FloorToPowerOfTwo mismatch range="+rangeClass(n),
			fmt.Sprintf("FloorToPowerOfTwo(%d)=%d, reference %d", n, gotF, wantF), map[string]any{"fn": "Floor", "n": n})
	}
	// IsPowerOfTwo
	wantI := refIsPow(n)
	var gotI bool
	if p, msg := vlib.Catch(func() { gotI = gmath.IsPowerOfTwo(n) }); p {
		c.res.Violate("C20 IsPowerOfTwo panic range="+rangeClass(n), fmt.Sprintf("IsPowerOfTwo(%d) panicked: %s", n, msg), map[string]any{"fn": "IsPow", "n": n})
	} else if gotI != wantI {
		c.res.Violate("C20 IsPowerOfTwo mismatch range="+rangeClass(n),
			fmt.Sprintf("IsPowerOfTwo(%d)=%v, reference %v", n, gotI, wantI), map[string]any{"fn": "IsPow", "n": n})
	}
	// Closest (specified for 1 <= n <= maxPow)
	if n >= 1 && n <= maxPow {
		wantK := refClosest(n)
		var gotK int
		if p, msg := vlib.Catch(func() { gotK = gmath.ClosestPowerOfTwo(n) }); p {
			c.res.Violate("C20 ClosestPowerOfTwo panic range="+rangeClass(n), fmt.Sprintf("ClosestPowerOfTwo(%d) panicked: %s", n, msg), map[string]any{"fn": "Closest", "n": n})
		} else if gotK != wantK {
			c.res.Violate("C20 ClosestPowerOfTwo mismatch range="+rangeClass(n),
				fmt.Sprintf("ClosestPowerOfTwo(%d)=%d, reference %d", n, gotK, wantK), map[string]any{"fn": "Closest", "n": n})
		}
	}
}

// sweep checks every n in [lo,hi] with incrementally maintained references (no per-value loop).
func (c *checker) sweep(lo, hi int64) {
	// incrementally maintained references: ceil = smallest power of two >= max(n,2)
	ceil := 2
	for v := lo; v <= hi; v++ {
		n := int(v)
		var wantF int
		var isPow bool
		if n > maxPow {
			// no power of two >= n fits into int (32-bit builds: the upper half of the int32 range): Ceil must panic
			// (checked with recover on the neighbourhoods and the random values; too slow for 2^30 values, and the
			// incremental reference below would overflow); Floor and IsPowerOfTwo are total and are swept here
			if got := gmath.FloorToPowerOfTwo(n); got != maxPow {
				c.res.Violate("C20 FloorToPowerOfTwo mismatch range="+rangeClass(n), fmt.Sprintf("FloorToPowerOfTwo(%d)=%d, reference %d", n, got, maxPow), map[string]any{"fn": "Floor", "n": n})
			}
			if gmath.IsPowerOfTwo(n) {
				c.res.Violate("C20 IsPowerOfTwo mismatch range="+rangeClass(n), fmt.Sprintf("IsPowerOfTwo(%d)=true", n), map[string]any{"fn": "IsPow", "n": n})
			}
			continue
		}
		if n <= 2 {
			ceil, wantF, isPow = 2, n, n == 1 || n == 2
		} else {
			for ceil < n {
				ceil += ceil
			}
			isPow = n == ceil
			if isPow {
				wantF = ceil
			} else {
				wantF = ceil / 2
			}
		}
		floor := wantF
		if gmath.CeilToPowerOfTwo(n) != ceil {
			c.res.Violate("C20 CeilToPowerOfTwo mismatch range="+rangeClass(n), fmt.Sprintf("CeilToPowerOfTwo(%d)=%d, reference %d", n, gmath.CeilToPowerOfTwo(n), ceil), map[string]any{"fn": "Ceil", "n": n})
		}
		if gmath.FloorToPowerOfTwo(n) != wantF {
			c.res.Violate("C20 FloorToPowerOfTwo mismatch range="+rangeClass(n), fmt.Sprintf("FloorToPowerOfTwo(%d)=%d, reference %d", n, gmath.FloorToPowerOfTwo(n), wantF), map[string]any{"fn": "Floor", "n": n})
		}
		if gmath.IsPowerOfTwo(n) != isPow {
			c.res.Violate("C20 IsPowerOfTwo mismatch range="+rangeClass(n), fmt.Sprintf("IsPowerOfTwo(%d)=%v, reference %v", n, gmath.IsPowerOfTwo(n), isPow), map[string]any{"fn": "IsPow", "n": n})
		}
		if n >= 1 {
			wantK := ceil
			if !isPow && n-floor < ceil-n {
				wantK = floor
			}
			if isPow {
				wantK = n
			}
			if got := gmath.ClosestPowerOfTwo(n); got != wantK {
				c.res.Violate("C20 ClosestPowerOfTwo mismatch range="+rangeClass(n), fmt.Sprintf("ClosestPowerOfTwo(%d)=%d, reference %d", n, got, wantK), map[string]any{"fn": "Closest", "n": n})
			}
		}
	}
	c.evals.Add(hi - lo + 1)
}

func (c *checker) sweepIndex(lo, hi uint64) {
	idx := refIndex(uint32(lo))
	capv := uint64(1) << idx
	for v := lo; v <= hi; v++ {
		if v > capv {
			capv += capv
			idx++
		}
		if got := byteslice.VerifIndex(uint32(v)); got != idx {
			c.res.Violate("C20 byteslice.index mismatch", fmt.Sprintf("index(%d)=%d, smallest class with capacity>=size is %d", v, got, idx), map[string]any{"fn": "index", "n": v})
		}
	}
	c.evals.Add(int64(hi - lo + 1))
}

func main() {
	res := vlib.Start("arith")
	rnd := vlib.NewRand(res.Seed)
	c := &checker{res: res}

	// 0. self-check of the incremental sweep against the doubling references on a small range
	c.sweep(-70000, 70000)
	for n := -5000; n <= 70000; n++ {
		c.one(n)
	}

	// 1. neighbourhoods of every power of two
	width := 1024
	for k := 0; k <= intBits-2; k++ {
		p := 1 << k
		for d := -width; d <= width; d++ {
			n := p + d
			c.one(n)
		}
		res.Distinct(fmt.Sprintf("pow-neighbourhood k=%d", k))
	}
	// beyond the largest power: panics expected from Ceil
	for d := 1; d <= width; d++ {
		c.one(maxPow + d)
		c.one(maxPow - 1 + maxPow - d + 1) // near MaxInt
	}
	c.one(int(^uint(0) >> 1))
	c.one(-int(^uint(0)>>1) - 1)
	res.Distinct("above-2^(bits-2)")
	res.Distinct("extremes")

	// 2. random values over the whole int range, all bit lengths equally likely
	nrand := 10_000_000
	if res.Thorough() {
		nrand = 100_000_000
	}
	if *vlib.FlagN > 0 {
		nrand = *vlib.FlagN
	}
	var wg sync.WaitGroup
	workers := 16
	for w := 0; w < workers; w++ {
		r := rnd.Fork()
		wg.Add(1)
		go func(w int) {
			defer wg.Done()
			for i := 0; i < nrand/workers; i++ {
				bl := r.Intn(intBits)
				v := r.U64()
				if bl < 63 {
					v &= (uint64(1) << (bl + 1)) - 1
				}
				n := int(v)
				if intBits == 32 {
					n = int(int32(uint32(v)))
				}
				c.one(n)
				if i == 7 && w < 3 {
					res.Sample(map[string]any{"n": n, "ceil_panics": func() bool { _, p := refCeil(n); return p }(), "floor": refFloor(n), "ispow": refIsPow(n)})
				}
			}
		}(w)
	}
	wg.Wait()
	for bl := 0; bl < intBits; bl++ {
		res.Distinct(fmt.Sprintf("random bitlen=%d", bl+1))
	}

	// 3. exhaustive 32-bit sweep (thorough)
	exhaustive := false
	if res.Thorough() {
		lo, hi := int64(-1<<31), int64(1<<31-1)
		step := (hi - lo + 1) / 64
		jobs := make(chan [2]int64, 64)
		for a := lo; a <= hi; a += step {
			b := a + step - 1
			if b > hi {
				b = hi
			}
			jobs <- [2]int64{a, b}
		}
		close(jobs)
		for w := 0; w < workers; w++ {
			wg.Add(1)
			go func() {
				defer wg.Done()
				for j := range jobs {
					c.sweep(j[0], j[1])
				}
			}()
		}
		wg.Wait()
		// size-class index over its whole domain 1..2^31
		ij := make(chan [2]uint64, 64)
		for a := uint64(1); a <= 1<<31; a += 1 << 25 {
			b := a + 1<<25 - 1
			if b > 1<<31 {
				b = 1 << 31
			}
			ij <- [2]uint64{a, b}
		}
		close(ij)
		for w := 0; w < workers; w++ {
			wg.Add(1)
			go func() {
				defer wg.Done()
				for j := range ij {
					c.sweepIndex(j[0], j[1])
				}
			}()
		}
		wg.Wait()
		exhaustive = true
		res.Distinct("exhaustive int32 sweep")
		res.Distinct("exhaustive size-class sweep 1..2^31")
	} else {
		// size classes: neighbourhoods and random
		for k := 0; k <= 31; k++ {
			p := uint64(1) << k
			lo, hi := p-2000, p+2000
			if p < 2001 {
				lo = 1
			}
			if hi > 1<<31 {
				hi = 1 << 31
			}
			c.sweepIndex(lo, hi)
			res.Distinct(fmt.Sprintf("index-neighbourhood k=%d", k))
		}
		r := rnd.Fork()
		for i := 0; i < 2_000_000; i++ {
			v := uint32(r.U64()>>33) + 1
			if v > 1<<31 {
				v = 1 << 31
			}
			if got, want := byteslice.VerifIndex(v), refIndex(v); got != want {
				res.Violate("C20 byteslice.index mismatch", fmt.Sprintf("index(%d)=%d, reference %d", v, got, want), map[string]any{"fn": "index", "n": v})
			}
		}
		c.evals.Add(2_000_000)
	}
	res.Extra["exhaustive_int32"] = exhaustive

	// 4. GFD packing
	r := rnd.Fork()
	cols := []int{0, 1, 2, 255, 256, 257, 32767, 32768, 65534, 65535}
	fds := []int{0, 1, 3, 255, 256, 65535, 65536, 1 << 20, 1<<30 - 1 + 1<<30}
	if intBits == 64 {
		one := uint64(1)
		fds = append(fds, int(one<<31), int(one<<32+5), int(one<<40+123), int(one<<62))
	}
	var ngfd int64
	for loop := 0; loop < 256; loop++ {
		for row := 0; row < 256; row++ {
			cs := append([]int{r.Intn(65536), r.Intn(65536)}, cols[r.Intn(len(cols))], cols[(loop+row)%len(cols)])
			for _, col := range cs {
				fd := fds[r.Intn(len(fds))]
				if r.Bool() {
					fd = int(r.U64() >> (1 + uint(r.Intn(62))) & (uint64(^uint(0)) >> 1))
				}
				g := gfd.NewGFD(fd, loop, row, col)
				ngfd++
				if g.Fd() != fd || g.EventLoopIndex() != loop || g.ConnMatrixRow() != row || g.ConnMatrixColumn() != col {
					res.Violate("C20 gfd.NewGFD roundtrip", fmt.Sprintf("NewGFD(fd=%d,loop=%d,row=%d,col=%d) -> fd=%d loop=%d row=%d col=%d",
						fd, loop, row, col, g.Fd(), g.EventLoopIndex(), g.ConnMatrixRow(), g.ConnMatrixColumn()), map[string]any{"fn": "NewGFD", "fd": fd, "loop": loop, "row": row, "col": col})
				}
				seq := g.Sequence()
				nr, nc := r.Intn(256), r.Intn(65536)
				g.UpdateIndexes(nr, nc)
				if g.Fd() != fd || g.EventLoopIndex() != loop || g.ConnMatrixRow() != nr || g.ConnMatrixColumn() != nc || g.Sequence() != seq {
					res.Violate("C20 gfd.UpdateIndexes roundtrip", fmt.Sprintf("UpdateIndexes(%d,%d) on (fd=%d,loop=%d) -> fd=%d loop=%d row=%d col=%d seq %d->%d",
						nr, nc, fd, loop, g.Fd(), g.EventLoopIndex(), g.ConnMatrixRow(), g.ConnMatrixColumn(), seq, g.Sequence()), map[string]any{"fn": "UpdateIndexes", "fd": fd, "loop": loop, "row": nr, "col": nc})
				}
			}
		}
	}
	c.evals.Add(ngfd)
	res.Distinct("gfd 256x256 loop/row combinations")
	res.Obs("gfd_roundtrips", ngfd)
	res.Sample(map[string]any{"gfd": "NewGFD(fd, loop, row, col) for all 256x256 (loop,row), 4 columns each, then UpdateIndexes"})

	res.Eval(c.evals.Load())
	res.Obs("int_bits", intBits)
	res.Finish()
}
