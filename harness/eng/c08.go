//go:build verif

package main

import (
	"encoding/binary"
	"fmt"
	"net"
	"strings"
	"sync"
	"sync/atomic"
	"time"

	gnet "github.com/panjf2000/gnet/v2"
	"github.com/panjf2000/gnet/v2/pkg/vsys"
	"github.com/panjf2000/gnet/v2/zzverif/vlib"
)

// ---- C08: UDP datagram fidelity ----------------------------------------------------------

const (
	dgMagic  = 0x44474d31 // request  "DGM1"
	ansMagic = 0x414e5331 // answer   "ANS1"
	dgHdr    = 14
)

// request: [magic 4 | client 2 | seq 4 | len 4 | payload]; a zero-length datagram carries nothing.
func mkDatagram(seed uint64, client int, seq uint32, size int) []byte {
	if size < dgHdr {
		return []byte{}
	}
	b := make([]byte, size)
	binary.BigEndian.PutUint32(b[0:], dgMagic)
	binary.BigEndian.PutUint16(b[4:], uint16(client))
	binary.BigEndian.PutUint32(b[6:], seq)
	binary.BigEndian.PutUint32(b[10:], uint32(size-dgHdr))
	vlib.StreamFill(seed^uint64(client)<<32^uint64(seq), 0, b[dgHdr:])
	return b
}

// answer: [magic 4 | origClient 2 | origSeq 4 | kind 1 | len 4 | payload]
func mkAnswer(seed uint64, client int, seq uint32, kind byte, n int) []byte {
	b := make([]byte, 15+n)
	binary.BigEndian.PutUint32(b[0:], ansMagic)
	binary.BigEndian.PutUint16(b[4:], uint16(client))
	binary.BigEndian.PutUint32(b[6:], seq)
	b[10] = kind
	binary.BigEndian.PutUint32(b[11:], uint32(n))
	vlib.StreamFill(seed^0xa5^uint64(client)<<32^uint64(seq), 0, b[15:])
	return b
}

type udpClient struct {
	id        int
	conn      *net.UDPConn
	addr      *net.UDPAddr
	processed atomic.Int64 // datagrams of this client seen by the handler
	emptySent atomic.Int64
	emptySeen atomic.Int64
	expect    sync.Map // answer key (origClient<<32|origSeq) -> size
	got       sync.Map
	nExpect   atomic.Int64
	nGot      atomic.Int64
	bad       atomic.Int64
}

func runC08Case(c cfg, seed uint64, nclients, perClient int, keys map[string]struct{}) (evals int64) {
	r := vlib.NewRand(seed)
	var kmu sync.Mutex
	key := func(k string) {
		kmu.Lock()
		keys[k] = struct{}{}
		kmu.Unlock()
	}
	clients := make([]*udpClient, nclients)
	byAddr := sync.Map{} // "ip:port" -> *udpClient
	var mon *monitor
	var callbacks, answersSent, inflight atomic.Int64
	var wantLocal atomic.Value
	wantLocal.Store("")
	sendto0 := vsys.Calls[vsys.CSendto].Load()
	seen := sync.Map{} // client<<32|seq -> count
	fail := func(sig, detail string) {
		mon.violate("C08 "+sig+" net="+c.Net, detail)
	}
	sizeOf := func(client int, seq uint32) int {
		h := vlib.Mix(seed ^ uint64(client)<<20 ^ uint64(seq)*7919)
		// payloads up to the read-buffer size must arrive whole, the exact fit included
		limit := c.RCap
		if limit > 65507 {
			limit = 65507
		}
		n := 0
		switch h % 11 {
		case 0:
			return 0
		case 1:
			return dgHdr
		case 2:
			return dgHdr + 1
		case 3:
			n = 1472
		case 4:
			n = 1473
		case 5:
			n = 8192
		case 6:
			return limit
		case 7:
			return limit - 1
		case 8:
			n = 65507
		default:
			n = dgHdr + int((h>>8)%2000)
		}
		if n > limit {
			n = dgHdr + int((h>>8)%uint64(limit-dgHdr))
		}
		return n
	}
	ansKind := func(client int, seq uint32) (kind byte, target int) {
		h := vlib.Mix(seed ^ 0x77 ^ uint64(client)<<24 ^ uint64(seq))
		if h%3 == 0 && nclients > 1 {
			return 'S', int((h >> 8) % uint64(nclients))
		}
		return 'W', client
	}
	ansSize := func(client int, seq uint32) int {
		return int(vlib.Mix(seed^0x99^uint64(client)<<16^uint64(seq)) % 1200)
	}
	onDatagram := func(gc gnet.Conn) gnet.Action {
		callbacks.Add(1)
		ra := gc.RemoteAddr()
		if ra == nil {
			fail("RemoteAddr nil in OnTraffic", "UDP event without a remote address")
			return gnet.None
		}
		v, ok := byAddr.Load(ra.String())
		if !ok {
			fail("RemoteAddr is not the sender's address", fmt.Sprintf("RemoteAddr() = %s, no client socket has that address", ra.String()))
			return gnet.None
		}
		cl := v.(*udpClient)
		if la := gc.LocalAddr(); la == nil || la.String() != wantLocal.Load().(string) {
			fail("LocalAddr is not the listener's address", fmt.Sprintf("LocalAddr() = %v, the listener is bound to %s", la, wantLocal.Load()))
		}
		n := gc.InboundBuffered()
		b, err := gc.Peek(-1)
		if err != nil || len(b) != n {
			fail("Peek(-1) disagrees with InboundBuffered", fmt.Sprintf("InboundBuffered()=%d, Peek(-1) returned %d bytes, err %v", n, len(b), err))
			return gnet.None
		}
		inflight.Add(-int64(n) - 512)
		if n == 0 {
			cl.emptySeen.Add(1)
			cl.processed.Add(1)
			ans := mkAnswer(seed, cl.id, 0xffffffff, 'E', 0)
			if _, err := gc.Write(ans); err != nil {
				fail("Write failed", fmt.Sprint(err))
			}
			answersSent.Add(1)
			key(c.Net + "|datagram|size=0")
			return gnet.None
		}
		if n < dgHdr || binary.BigEndian.Uint32(b) != dgMagic {
			fail("readable bytes are not one whole datagram", fmt.Sprintf("from %s: %d readable bytes that do not start a datagram of this workload (remainder of an earlier one?)", ra, n))
			_, _ = gc.Discard(-1)
			return gnet.None
		}
		client := int(binary.BigEndian.Uint16(b[4:]))
		seq := binary.BigEndian.Uint32(b[6:])
		plen := int(binary.BigEndian.Uint32(b[10:]))
		if client != cl.id {
			fail("RemoteAddr is not the sender's address", fmt.Sprintf("datagram of client %d seq %d arrived with RemoteAddr %s which belongs to client %d", client, seq, ra, cl.id))
		}
		want := sizeOf(client, seq)
		if n != want || plen != n-dgHdr {
			fail("datagram boundaries not preserved", fmt.Sprintf("client %d seq %d: %d readable bytes, the datagram sent had %d (merged, split or carried over)", client, seq, n, want))
			_, _ = gc.Discard(-1)
			cl.processed.Add(1)
			return gnet.None
		}
		if at := vlib.StreamCheck(seed^uint64(client)<<32^uint64(seq), 0, b[dgHdr:]); at >= 0 {
			fail("datagram payload altered", fmt.Sprintf("client %d seq %d: payload differs at byte %d", client, seq, at))
		}
		k := uint64(client)<<32 | uint64(seq)
		if cnt, loaded := seen.LoadOrStore(k, new(atomic.Int32)); loaded {
			cnt.(*atomic.Int32).Add(1)
			fail("datagram delivered more than once", fmt.Sprintf("client %d seq %d produced a second OnTraffic", client, seq))
		}
		// consumption choice: must not influence the next datagram
		switch cons := vlib.Mix(k^seed) % 4; cons {
		case 0:
			_, _ = gc.Next(-1)
			key(c.Net + "|consume|all")
		case 1:
			_, _ = gc.Next(n / 2)
			key(c.Net + "|consume|prefix")
		case 2:
			key(c.Net + "|consume|nothing")
		case 3:
			p := make([]byte, 7)
			_, _ = gc.Read(p)
			key(c.Net + "|consume|read7")
		}
		kind, target := ansKind(client, seq)
		ans := mkAnswer(seed, client, seq, kind, ansSize(client, seq))
		if kind == 'W' {
			if _, err := gc.Write(ans); err != nil {
				fail("Write failed", fmt.Sprintf("client %d seq %d: %v", client, seq, err))
			}
		} else {
			if _, err := gc.SendTo(ans, clients[target].addr); err != nil {
				fail("SendTo failed", fmt.Sprintf("client %d seq %d -> client %d (%s): %v", client, seq, target, clients[target].addr, err))
			}
		}
		answersSent.Add(1)
		cl.processed.Add(1)
		if n == c.RCap {
			key(fmt.Sprintf("%s|datagram|size=read-buffer-exactly(%d)", c.Net, n))
		}
		key(fmt.Sprintf("%s|datagram|size=%s|answer=%c", c.Net, dgSizeClass(n), kind))
		return gnet.None
	}
	mon = newMonitor("c08", hooks{onDatagram: onDatagram})
	mon.udp = true
	vsys.ResetLedger()
	life, err := startServer(c, mon)
	if err != nil {
		res.Inconc("c08 %s: engine did not start: %v", c, err)
		return 0
	}
	wantLocal.Store(life.dialAddr)
	srvAddr, _ := net.ResolveUDPAddr(life.dialNet, life.dialAddr)
	host, zone := "127.0.0.1", ""
	if c.Net == "udp6" {
		host = "::1"
	}
	if c.LinkLocal != "" {
		// senders with a scoped (link-local) address: RemoteAddr and SendTo targets carry a zone
		i := strings.IndexByte(c.LinkLocal, '%')
		host, zone = c.LinkLocal[:i], c.LinkLocal[i+1:]
		key(c.Net + "|link-local-scoped-addresses")
	}
	// a legitimate user of the byte pool scribbles over whatever it is given: address and zone strings that were
	// handed to the pool while still in use would change under the handler's eyes
	puStop := make(chan struct{})
	var puWG sync.WaitGroup
	puWG.Add(1)
	go poolUser(puStop, &puWG)
	defer func() { close(puStop); puWG.Wait() }()
	for i := range clients {
		la := &net.UDPAddr{IP: net.ParseIP(host), Zone: zone}
		if r.Intn(3) == 0 && c.Net == "udp" {
			la.IP = net.ParseIP(host).To16() // 16-byte form of an IPv4 address
		}
		uc, err := net.ListenUDP(life.dialNet, la)
		if err != nil {
			res.Inconc("c08: client socket: %v", err)
			_ = life.stop(5 * time.Second)
			return 0
		}
		_ = uc.SetReadBuffer(4 << 20)
		cl := &udpClient{id: i, conn: uc, addr: uc.LocalAddr().(*net.UDPAddr)}
		if r.Bool() {
			// SendTo target in the 16-byte form that net.ResolveUDPAddr produces
			cl.addr, _ = net.ResolveUDPAddr(life.dialNet, uc.LocalAddr().String())
		}
		clients[i] = cl
		byAddr.Store(uc.LocalAddr().String(), cl)
	}
	// expectations
	for _, cl := range clients {
		for s := 0; s < perClient; s++ {
			if sizeOf(cl.id, uint32(s)) == 0 {
				continue
			}
			_, target := ansKind(cl.id, uint32(s))
			clients[target].expect.Store(uint64(cl.id)<<32|uint64(s), 15+ansSize(cl.id, uint32(s)))
			clients[target].nExpect.Add(1)
		}
	}
	var wg sync.WaitGroup
	stopRecv := make(chan struct{})
	for _, cl := range clients {
		wg.Add(1)
		go func(cl *udpClient) { // receiver
			defer wg.Done()
			buf := make([]byte, 70000)
			for {
				select {
				case <-stopRecv:
					return
				default:
				}
				_ = cl.conn.SetReadDeadline(time.Now().Add(50 * time.Millisecond))
				n, from, err := cl.conn.ReadFromUDP(buf)
				if err != nil {
					continue
				}
				if from.Port != srvAddr.Port {
					fail("answer came from a wrong source", fmt.Sprintf("client %d received a datagram from %s, the server is %s", cl.id, from, srvAddr))
				}
				b := buf[:n]
				if n < 15 || binary.BigEndian.Uint32(b) != ansMagic {
					cl.bad.Add(1)
					fail("client received bytes that are not one whole answer", fmt.Sprintf("client %d: %d bytes", cl.id, n))
					continue
				}
				oc := int(binary.BigEndian.Uint16(b[4:]))
				os := binary.BigEndian.Uint32(b[6:])
				if b[10] == 'E' {
					continue // acknowledgement of an empty datagram
				}
				ln := int(binary.BigEndian.Uint32(b[11:]))
				k := uint64(oc)<<32 | uint64(os)
				want, ok := cl.expect.Load(k)
				if !ok {
					fail("answer delivered to the wrong client", fmt.Sprintf("client %d received the answer to datagram (client %d, seq %d) that was addressed elsewhere", cl.id, oc, os))
					continue
				}
				if n != want.(int) || ln != n-15 || vlib.StreamCheck(seed^0xa5^uint64(oc)<<32^uint64(os), 0, b[15:]) >= 0 {
					fail("answer datagram altered", fmt.Sprintf("client %d: answer to (client %d, seq %d) has %d bytes, sent %d, or a damaged payload", cl.id, oc, os, n, want.(int)))
					continue
				}
				if _, dup := cl.got.LoadOrStore(k, true); dup {
					fail("answer delivered more than once", fmt.Sprintf("client %d: answer to (client %d, seq %d) twice", cl.id, oc, os))
					continue
				}
				cl.nGot.Add(1)
			}
		}(cl)
	}
	var swg sync.WaitGroup
	window := int64(r.Pick(1, 4, 16))
	for _, cl := range clients {
		swg.Add(1)
		go func(cl *udpClient) { // sender
			defer swg.Done()
			sent := int64(0)
			for s := 0; s < perClient; s++ {
				for sent-cl.processed.Load() >= window {
					time.Sleep(20 * time.Microsecond)
					if sent-cl.processed.Load() >= window && !waitShort(func() bool { return sent-cl.processed.Load() < window }) {
						return // stuck or lost: decided below
					}
				}
				d := mkDatagram(seed, cl.id, uint32(s), sizeOf(cl.id, uint32(s)))
				if len(d) == 0 {
					cl.emptySent.Add(1)
				}
				// keep the bytes in flight below the listener's receive buffer so that loopback does not drop
				for k := 0; inflight.Load() > 0 && inflight.Load()+int64(len(d)) > 80*1024; k++ {
					time.Sleep(20 * time.Microsecond)
					if k > 20000 {
						return // bytes sent long ago are still unaccounted for: lost or dropped, decided below
					}
				}
				inflight.Add(int64(len(d)) + 512)
				if _, err := cl.conn.WriteToUDP(d, srvAddr); err != nil {
					return
				}
				sent++
			}
		}(cl)
	}
	swg.Wait()
	total := int64(nclients * perClient)
	ok, verdict := waitCond(5*time.Second, func() bool {
		var p, g, e int64
		for _, cl := range clients {
			p += cl.processed.Load()
			g += cl.nGot.Load()
			e += cl.nExpect.Load()
		}
		return p >= total && g >= e
	})
	close(stopRecv)
	wg.Wait()
	var recvd int64
	for _, fi := range vsys.Owned() {
		if fi.Class == "socket" {
			recvd += fi.Reads
		}
	}
	if !ok {
		var p, g, e int64
		for _, cl := range clients {
			p += cl.processed.Load()
			g += cl.nGot.Load()
			e += cl.nExpect.Load()
		}
		switch {
		case vsys.Shimmed && recvd > callbacks.Load():
			fail("datagram received by the kernel call but not handed to OnTraffic", fmt.Sprintf("recvfrom returned %d datagrams, OnTraffic ran %d times (%d of %d processed); %s", recvd, callbacks.Load(), p, total, verdict))
		case vsys.Shimmed && p >= total && vsys.Calls[vsys.CSendto].Load()-sendto0 < answersSent.Load():
			fail("answer accepted but never sent", fmt.Sprintf("%d Write/SendTo calls returned nil, %d sendto system calls were made", answersSent.Load(), vsys.Calls[vsys.CSendto].Load()-sendto0))
		case p < total && vsys.Shimmed && recvd <= callbacks.Load():
			res.Inconc("c08 %s: %d of %d datagrams processed, the kernel delivered %d to recvfrom (UDP loss?) %s", c, p, total, recvd, verdict)
		default:
			res.Inconc("c08 %s: clients got %d of %d answers although %d were sent by sendto (UDP loss?) %s", c, g, e, answersSent.Load(), verdict)
		}
	}
	for _, cl := range clients {
		if cl.emptySeen.Load() > cl.emptySent.Load() {
			fail("empty datagram delivered more than once", fmt.Sprintf("client %d sent %d empty datagrams, OnTraffic saw %d", cl.id, cl.emptySent.Load(), cl.emptySeen.Load()))
		}
		if ok && cl.emptySeen.Load() != cl.emptySent.Load() {
			fail("empty datagram not delivered", fmt.Sprintf("client %d sent %d empty datagrams, OnTraffic saw %d although recvfrom returned %d datagrams in total", cl.id, cl.emptySent.Load(), cl.emptySeen.Load(), recvd))
		}
		evals += cl.processed.Load()
	}
	if vsys.Shimmed && ok && recvd != callbacks.Load() {
		fail("OnTraffic count differs from datagrams received", fmt.Sprintf("recvfrom returned %d datagrams, OnTraffic ran %d times", recvd, callbacks.Load()))
	}
	res.Obs("c08_datagrams", evals)
	res.Obs("c08_answers_verified", func() (n int64) {
		for _, cl := range clients {
			n += cl.nGot.Load()
		}
		return
	}())
	res.Obs("c08_recvfrom_ok", recvd)
	for _, cl := range clients {
		_ = cl.conn.Close()
	}
	if err := life.stop(10 * time.Second); err != nil {
		res.Inconc("c08 %s: stop: %v", c, err)
	}
	return evals
}

func waitShort(f func() bool) bool {
	dl := time.Now().Add(3 * time.Second)
	for time.Now().Before(dl) {
		if f() {
			return true
		}
		time.Sleep(100 * time.Microsecond)
	}
	return false
}

func dgSizeClass(n int) string {
	switch {
	case n == 0:
		return "0"
	case n <= dgHdr+1:
		return "tiny"
	case n == 1472:
		return "1472"
	case n == 1473:
		return "1473"
	case n == 8192:
		return "8192"
	case n == 65507:
		return "65507"
	}
	return "small"
}
