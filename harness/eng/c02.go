//go:build verif

package main

import (
	"bytes"
	"encoding/binary"
	"errors"
	"fmt"
	"hash/crc32"
	"io"
	"net"
	"sync"
	"sync/atomic"
	"time"

	gnet "github.com/panjf2000/gnet/v2"
	"github.com/panjf2000/gnet/v2/pkg/vsys"
	"github.com/panjf2000/gnet/v2/zzverif/vlib"
)

// ---- C02: outbound stream integrity and ordering ---------------------------------------

const recMagic = 0x474e5632 // "GNV2"
const recOverhead = 17

// mkRecord builds [magic|producer|seq|len|payload|crc32].
func mkRecord(key uint64, producer int, seq uint32, n int) []byte {
	b := make([]byte, recOverhead+n)
	binary.BigEndian.PutUint32(b[0:], recMagic)
	b[4] = byte(producer)
	binary.BigEndian.PutUint32(b[5:], seq)
	binary.BigEndian.PutUint32(b[9:], uint32(n))
	vlib.StreamFill(key^uint64(producer)<<40^uint64(seq)<<8, 0, b[13:13+n])
	binary.BigEndian.PutUint32(b[13+n:], crc32.ChecksumIEEE(b[:13+n]))
	return b
}

type parsedRec struct {
	producer int
	seq      uint32
	n        int
	off      int
}

// parseRecords parses the received byte stream; returns the records and, on damage, the offset and reason.
func parseRecords(key uint64, data []byte) (recs []parsedRec, badOff int, reason string) {
	off := 0
	for off < len(data) {
		if len(data)-off < recOverhead {
			return recs, off, fmt.Sprintf("%d trailing bytes that are not a record", len(data)-off)
		}
		if binary.BigEndian.Uint32(data[off:]) != recMagic {
			return recs, off, "bytes between records (no record header here)"
		}
		p := int(data[off+4])
		seq := binary.BigEndian.Uint32(data[off+5:])
		n := int(binary.BigEndian.Uint32(data[off+9:]))
		if n < 0 || off+recOverhead+n > len(data) {
			return recs, off, fmt.Sprintf("record (producer %d seq %d len %d) is truncated: stream ends after %d of %d bytes", p, seq, n, len(data)-off, recOverhead+n)
		}
		if crc32.ChecksumIEEE(data[off:off+13+n]) != binary.BigEndian.Uint32(data[off+13+n:]) {
			at := vlib.StreamCheck(key^uint64(p)<<40^uint64(seq)<<8, 0, data[off+13:off+13+n])
			return recs, off, fmt.Sprintf("record (producer %d seq %d len %d) is corrupted (payload differs at byte %d)", p, seq, n, at)
		}
		recs = append(recs, parsedRec{p, seq, n, off})
		off += recOverhead + n
	}
	return recs, -1, ""
}

type c02Op struct {
	kind string // open-reply, write, writev, readfrom, asyncwrite, asyncwritev
	data []byte // concatenated records
	nrec int
}

type c02Conn struct {
	key            uint64
	rnd            *vlib.Rand
	c              gnet.Conn
	syncOps        []c02Op
	next           int
	accepted       atomic.Int64    // bytes accepted by operations that took effect (written on the loop goroutine only)
	issued         [4]atomic.Int64 // records accepted per producer
	asyncLeft      atomic.Int64    // async callbacks still outstanding
	asyncIssuedAll atomic.Bool
	syncDone       atomic.Bool
	closing        atomic.Bool
	closedSeen     atomic.Bool
	failed         atomic.Bool
	batches        atomic.Int64
	maxBuffered    atomic.Int64
	ops            atomic.Int64
	openReply      []byte
}

// settleOpen accounts for the OnOpen reply, which takes effect when OnOpen returns (loop goroutine only).
func (d *c02Conn) settleOpen() {
	if d.openReply != nil {
		d.accepted.Add(int64(len(d.openReply)))
		d.openReply = nil
	}
}

type c02Scenario struct {
	ending atomic.Bool // the case is over: the engine is being stopped by the harness
	c      cfg
	keys   map[string]struct{}
	kmu    sync.Mutex
}

func (s *c02Scenario) key(k string) {
	s.kmu.Lock()
	s.keys[k] = struct{}{}
	s.kmu.Unlock()
}

func (s *c02Scenario) fail(m *monitor, cs *connState, d *c02Conn, sig, detail string) {
	if d.failed.Swap(true) {
		return
	}
	m.violate("C02 "+sig+" cfg="+s.c.class(), fmt.Sprintf("connection %d (key %x): %s", cs.tok, d.key, detail))
}

func recSize(r *vlib.Rand, wcap int) int {
	switch r.Intn(12) {
	case 0:
		return 0
	case 1:
		return 1
	case 2:
		return r.Range(1, 100)
	case 3:
		return wcap - recOverhead
	case 4:
		return wcap - recOverhead + r.Pick(-1, 1)
	case 5:
		return 2*wcap + r.Intn(100)
	case 6:
		return r.Range(1, 4*wcap)
	case 7:
		return r.Pick(100000, 300000, 1<<20)
	default:
		return r.Range(1, 3000)
	}
}

// bufState classifies the outbound buffer before an operation.
func bufState(c gnet.Conn, wcap int) string {
	b := c.OutboundBuffered()
	switch {
	case b == 0:
		return "direct"
	case b < wcap:
		return "ring"
	case b == wcap:
		return "ring-at-limit"
	}
	return "list"
}

// checkBuffered: OutboundBuffered == accepted - bytes the kernel took (shim).
func (s *c02Scenario) checkBuffered(m *monitor, cs *connState, d *c02Conn, c gnet.Conn, where string) {
	ob := int64(c.OutboundBuffered())
	if ob > d.maxBuffered.Load() {
		d.maxBuffered.Store(ob)
	}
	if !vsys.Shimmed {
		return
	}
	fi, ok := vsys.Info(cs.fd)
	if !ok || fi.State != 1 {
		return
	}
	if want := d.accepted.Load() - fi.Wr; ob != want {
		s.fail(m, cs, d, "OutboundBuffered differs from accepted minus written", fmt.Sprintf("%s: OutboundBuffered()=%d, accepted %d - handed to the kernel %d = %d", where, ob, d.accepted.Load(), fi.Wr, want))
	}
}

type chunkReader struct {
	data []byte
	r    *vlib.Rand
}

func (cr *chunkReader) Read(p []byte) (int, error) {
	if len(cr.data) == 0 {
		return 0, io.EOF
	}
	n := len(p)
	if cr.r.Intn(3) == 0 && n > 1 {
		n = cr.r.Range(1, n)
	}
	if n > len(cr.data) {
		n = len(cr.data)
	}
	copy(p, cr.data[:n])
	cr.data = cr.data[n:]
	if len(cr.data) == 0 && cr.r.Bool() {
		return n, io.EOF
	}
	return n, nil
}

func splitSegs(r *vlib.Rand, p []byte) [][]byte {
	var out [][]byte
	mode := r.Intn(6)
	switch mode {
	case 0: // >1024 tiny segments
		nseg := r.Pick(r.Range(1025, 1300), r.Range(2049, 3000))
		per := len(p)/nseg + 1
		for len(p) > 0 {
			n := per
			if n > len(p) {
				n = len(p)
			}
			out = append(out, p[:n:n])
			p = p[n:]
		}
		return out
	case 1:
		return [][]byte{p}
	}
	for len(p) > 0 {
		if r.Intn(5) == 0 {
			out = append(out, nil) // empty segment
		}
		n := r.Range(1, len(p))
		if r.Bool() && n > 200 {
			n = r.Range(1, 200)
		}
		out = append(out, p[:n:n])
		p = p[n:]
	}
	if r.Intn(3) == 0 {
		out = append(out, []byte{})
	}
	return out
}

// onTraffic executes the next batch of synchronous operations.
func (s *c02Scenario) onTraffic(m *monitor, cs *connState, c gnet.Conn) gnet.Action {
	d := cs.sc.(*c02Conn)
	_, _ = c.Discard(-1)
	if d.failed.Load() {
		return gnet.None
	}
	d.settleOpen()
	s.checkBuffered(m, cs, d, c, "callback entry")
	r := d.rnd
	n := r.Pick(1, 1, 2, 3, 4)
	for i := 0; i < n && d.next < len(d.syncOps) && !d.failed.Load(); i++ {
		op := d.syncOps[d.next]
		d.next++
		st := bufState(c, s.c.WCap)
		var got int
		var err error
		kern0 := int64(0)
		if vsys.Shimmed {
			if fi, ok := vsys.Info(cs.fd); ok {
				kern0 = fi.Wr
			}
		}
		switch op.kind {
		case "async-burst":
			for k := 0; k < op.nrec && err == nil; k++ {
				rec := mkRecord(d.key, 3, uint32(k), r.Pick(0, 1, 5, 40))
				ln := int64(len(rec))
				cb := func(gc gnet.Conn, cerr error) error {
					m.inCallback(gc, "AsyncWrite-callback", func() {
						if cerr != nil {
							s.fail(m, cs, d, "async write failed on an open connection", fmt.Sprintf("burst producer: callback got %v", cerr))
						} else {
							d.settleOpen()
							d.accepted.Add(ln)
							d.issued[3].Add(1)
						}
						d.asyncLeft.Add(-1)
					})
					return nil
				}
				d.asyncLeft.Add(1)
				if k%2 == 0 {
					err = c.AsyncWrite(rec, cb)
				} else {
					err = c.AsyncWritev([][]byte{rec[:5], rec[5:]}, cb)
				}
				if err != nil {
					d.asyncLeft.Add(-1)
				}
			}
			if err != nil {
				s.fail(m, cs, d, "async write rejected on an open connection", fmt.Sprintf("burst: %v", err))
			}
			d.ops.Add(int64(op.nrec))
			s.key(s.c.class() + "|async-burst>1024")
			continue
		case "write":
			got, err = c.Write(op.data)
		case "writev":
			segs := splitSegs(r, op.data)
			got, err = c.Writev(segs)
		case "readfrom":
			var n64 int64
			var rd io.Reader = bytes.NewReader(op.data)
			if r.Bool() {
				rd = &chunkReader{data: op.data, r: r.Fork()}
			}
			n64, err = c.ReadFrom(rd)
			got = int(n64)
			if err == nil {
				if ferr := c.Flush(); ferr != nil {
					err = fmt.Errorf("Flush: %w", ferr)
				}
			}
		}
		if err != nil || got != len(op.data) {
			s.fail(m, cs, d, "operation not accepted op="+op.kind, fmt.Sprintf("%s of %d bytes returned (%d,%v) on an open connection (buffer state %s)", op.kind, len(op.data), got, err, st))
			break
		}
		d.accepted.Add(int64(got))
		d.issued[0].Add(int64(op.nrec))
		d.ops.Add(1)
		acc := "full"
		if vsys.Shimmed {
			if fi, ok := vsys.Info(cs.fd); ok {
				switch took := fi.Wr - kern0; {
				case took == 0:
					acc = "none"
				case took < int64(got):
					acc = "partial"
				}
			}
		}
		s.key(s.c.class() + "|" + op.kind + "|" + st + "|" + acc)
		s.checkBuffered(m, cs, d, c, "after "+op.kind)
	}
	if d.next >= len(d.syncOps) {
		d.syncDone.Store(true)
	}
	d.batches.Add(1)
	if d.closing.Load() && c.OutboundBuffered() == 0 {
		cs.armedLocal.Store(true)
		return gnet.Close
	}
	return gnet.None
}

type c02Peer struct {
	conn     net.Conn
	key      uint64
	schedule string
	data     []byte
	err      error
	eof      bool
	gc       gnet.Conn
	nread    atomic.Int64
}

func (p *c02Peer) readAll(r *vlib.Rand, d func() *c02Conn) {
	buf := make([]byte, 64*1024)
	switch p.schedule {
	case "stall-then-burst":
		time.Sleep(time.Duration(r.Range(20, 150)) * time.Millisecond)
	case "stall-until-buffered":
		dl := time.Now().Add(400 * time.Millisecond)
		for time.Now().Before(dl) {
			if dd := d(); dd != nil && dd.maxBuffered.Load() > 64*1024 {
				break
			}
			time.Sleep(time.Millisecond)
		}
	}
	trickle := 0
	if p.schedule == "trickle" {
		trickle = r.Range(100, 3000) // bytes read one by one (bounded), then bulk
	}
	for {
		_ = p.conn.SetReadDeadline(time.Now().Add(30 * time.Second))
		b := buf
		if trickle > 0 {
			b = buf[:r.Range(1, 7)]
			trickle -= len(b)
			if r.Intn(20) == 0 {
				time.Sleep(time.Duration(r.Intn(500)) * time.Microsecond)
			}
		}
		n, err := p.conn.Read(b)
		p.data = append(p.data, b[:n]...)
		p.nread.Add(int64(n))
		if err != nil {
			if errors.Is(err, io.EOF) {
				p.eof = true
			} else {
				p.err = err
			}
			return
		}
	}
}

func runC02Case(c cfg, seed uint64, npeers int, keys map[string]struct{}) (evals int64) {
	s := &c02Scenario{c: c, keys: keys}
	r := vlib.NewRand(seed)
	var mon *monitor
	budget := 600 * 1024 // bytes per connection (some connections get more)
	mkScript := func(d *c02Conn, rr *vlib.Rand) {
		nops := rr.Range(3, 25)
		total := 0
		seq := uint32(0)
		mkData := func() ([]byte, int) {
			k := rr.Pick(1, 1, 1, 2, 3)
			var data []byte
			for i := 0; i < k; i++ {
				n := recSize(rr, c.WCap)
				if total+n > budget {
					n = rr.Range(0, 200)
				}
				total += n
				data = append(data, mkRecord(d.key, 0, seq, n)...)
				seq++
			}
			return data, k
		}
		if rr.Intn(3) == 0 {
			data, k := mkData()
			if rr.Bool() {
				// a reply that the kernel cannot take in one go when the connection opens (EAGAIN inside conn.open)
				data = append(data, mkRecord(d.key, 0, seq, rr.Pick(300*1024, 1<<20, 3<<20))...)
				seq++
				k++
			}
			d.openReply = data
			d.issued[0].Add(int64(k))
		}
		burstAt := -1
		if rr.Intn(4) == 0 {
			burstAt = rr.Intn(nops)
		}
		for i := 0; i < nops; i++ {
			if i == burstAt {
				// more than 1024 asynchronous writes issued back to back by one goroutine (the loop itself,
				// so the queue cannot drain meanwhile): exercises the high/low priority queue hand-over
				d.syncOps = append(d.syncOps, c02Op{kind: "async-burst", nrec: rr.Range(1100, 2600)})
				continue
			}
			if rr.Intn(8) == 0 {
				// an operation that moves no bytes (empty slice, empty segment list, a reader at EOF) must be accepted
				// and must not change what happens to the operations after it
				kind := []string{"write", "writev", "readfrom"}[rr.Intn(3)]
				d.syncOps = append(d.syncOps, c02Op{kind: kind, data: []byte{}, nrec: 0})
			}
			data, k := mkData()
			kind := []string{"write", "write", "writev", "writev", "readfrom"}[rr.Intn(5)]
			d.syncOps = append(d.syncOps, c02Op{kind: kind, data: data, nrec: k})
		}
	}
	mon = newMonitor("c02", hooks{
		onOpen: func(cs *connState, gc gnet.Conn) ([]byte, gnet.Action) {
			d := &c02Conn{key: cs.key, rnd: vlib.NewRand(cs.key ^ seed ^ 0xc02), c: gc}
			mkScript(d, d.rnd.Fork())
			cs.sc = d
			return d.openReply, gnet.None
		},
		onTraffic: func(cs *connState, gc gnet.Conn) gnet.Action { return s.onTraffic(mon, cs, gc) },
		onClose: func(cs *connState, gc gnet.Conn, err error) gnet.Action {
			if d, ok := cs.sc.(*c02Conn); ok {
				d.closedSeen.Store(true)
				if !d.closing.Load() && !s.ending.Load() {
					s.fail(mon, cs, d, "connection closed unexpectedly", fmt.Sprintf("OnClose(err=%v) while the peer was still reading and before the output had drained", err))
				}
			}
			return gnet.None
		},
	})
	// shim: real short writes (LT and ET), EAGAIN on write (LT only)
	vsys.PlanClear()
	if vsys.Shimmed && r.Chance(2, 3) {
		vsys.PlanSeed(seed)
		for _, cls := range []string{"accepted", "dup"} {
			vsys.PlanAdd(&vsys.Rule{Call: vsys.CWrite, FD: -1, Class: cls, Every: uint64(r.Pick(2, 3, 6)), Action: vsys.AShort, Max: r.Pick(1, 13, 100, 1000, c.WCap-1)})
			vsys.PlanAdd(&vsys.Rule{Call: vsys.CWritev, FD: -1, Class: cls, Every: uint64(r.Pick(2, 3, 6)), Action: vsys.AShort, Max: r.Pick(1, 17, 500, 5000)})
			if !c.ET {
				vsys.PlanAdd(&vsys.Rule{Call: vsys.CWrite, FD: -1, Class: cls, Every: uint64(r.Pick(4, 9)), Action: vsys.AEagain})
				vsys.PlanAdd(&vsys.Rule{Call: vsys.CWritev, FD: -1, Class: cls, Every: uint64(r.Pick(4, 9)), Action: vsys.AEagain})
			}
		}
		res.Obs("c02_cases_with_shim_writes", 1)
	}
	defer func() {
		res.Obs("c02_shim_perturbations", vsys.NFired())
		vsys.PlanClear()
	}()

	var life *engineLife
	var cli *gnet.Client
	var ln net.Listener
	var err error
	if !c.Client {
		life, err = startServer(c, mon)
		if err != nil {
			res.Inconc("c02 %s: engine did not start: %v", c, err)
			return 0
		}
	} else {
		cli, err = gnet.NewClient(mon, c.options()...)
		if err == nil {
			mon.cli = cli
			err = cli.Start()
		}
		if err != nil {
			res.Inconc("c02 %s: client start: %v", c, err)
			return 0
		}
		switch c.Net {
		case "unix":
			ln, err = net.Listen("unix", unixPath("hl"))
		case "tcp6":
			ln, err = net.Listen("tcp6", "[::1]:0")
		default:
			ln, err = net.Listen("tcp", "127.0.0.1:0")
		}
		if err != nil {
			res.Inconc("c02 %s: harness listen: %v", c, err)
			_ = cli.Stop()
			return 0
		}
	}
	schedules := []string{"immediately", "trickle", "stall-then-burst", "stall-until-buffered"}
	peers := make([]*c02Peer, npeers)
	var wg sync.WaitGroup
	var dmu sync.Mutex
	for i := 0; i < npeers; i++ {
		p := &c02Peer{schedule: schedules[r.Intn(len(schedules))]}
		peers[i] = p
		pr := r.Fork()
		wg.Add(1)
		go func(i int, p *c02Peer, pr *vlib.Rand) {
			defer wg.Done()
			var conn net.Conn
			var err error
			if !c.Client {
				conn, err = dialPeer(life.dialNet, life.dialAddr)
				if err != nil {
					p.err = err
					return
				}
				p.key = addrKey(conn.LocalAddr().String())
			} else {
				dmu.Lock()
				p.key = vlib.Mix(seed ^ uint64(i+1)*0x7f4a7c15)
				acc := make(chan net.Conn, 1)
				go func() {
					a, aerr := ln.Accept()
					if aerr != nil {
						acc <- nil
						return
					}
					acc <- a
				}()
				_, err = cli.DialContext(ln.Addr().Network(), ln.Addr().String(), p.key)
				if err != nil {
					dmu.Unlock()
					p.err = err
					return
				}
				conn = <-acc
				dmu.Unlock()
				if conn == nil {
					p.err = errors.New("harness accept failed")
					return
				}
			}
			p.conn = conn
			if pr.Bool() {
				// small receive buffer. Not below 2*MSS for TCP: with the 64K loopback MSS a 4K window makes the
				// kernel's silly-window avoidance crawl at persist-timer speed (seen: minutes for 200 KB), which
				// says nothing about gnet
				if _, isTCP := conn.(*net.TCPConn); isTCP {
					setSockBuf(conn, 0, 160*1024)
				} else {
					setSockBuf(conn, 0, 4096)
				}
			}
			// wait for the server-side record
			var cs *connState
			for k := 0; k < 5000 && cs == nil; k++ {
				if cs = mon.lookupKey(p.key); cs == nil {
					time.Sleep(time.Millisecond)
				}
			}
			if cs == nil {
				p.err = errors.New("OnOpen not seen")
				return
			}
			d := cs.sc.(*c02Conn)
			p.gc = cs.c
			// reader
			rdone := make(chan struct{})
			rr := pr.Fork() // forked here: the PRNG is not to be touched from two goroutines
			go func() {
				defer close(rdone)
				p.readAll(rr, func() *c02Conn { return d })
			}()
			// asynchronous producers
			nprod := pr.Pick(0, 1, 2, 2)
			var pwg sync.WaitGroup
			for pi := 1; pi <= nprod; pi++ {
				pwg.Add(1)
				go func(pi int, ar *vlib.Rand) {
					defer pwg.Done()
					nops := ar.Range(1, 20)
					seq := uint32(0)
					total := 0
					for k := 0; k < nops && !d.failed.Load(); k++ {
						if ar.Intn(6) == 0 {
							// an asynchronous write of nothing is still a request: accepted => its callback runs exactly once
							var runs atomic.Int32
							cb0 := func(gc gnet.Conn, err error) error {
								if runs.Add(1) > 1 {
									s.fail(mon, cs, d, "async write callback ran more than once", "empty asynchronous write")
								} else {
									d.asyncLeft.Add(-1)
								}
								return nil
							}
							d.asyncLeft.Add(1)
							var err error
							switch ar.Intn(4) {
							case 0:
								err = cs.c.AsyncWrite(nil, cb0)
							case 1:
								err = cs.c.AsyncWritev(nil, cb0)
							case 2:
								err = cs.c.AsyncWritev([][]byte{}, cb0)
							default:
								err = cs.c.AsyncWritev([][]byte{{}, nil}, cb0)
							}
							if err != nil {
								d.asyncLeft.Add(-1)
							}
							s.key(c.class() + "|async-empty")
						}
						kk := ar.Pick(1, 1, 2)
						var data []byte
						for j := 0; j < kk; j++ {
							n := recSize(ar, c.WCap)
							if total+n > budget/2 {
								n = ar.Range(0, 100)
							}
							total += n
							data = append(data, mkRecord(d.key, pi, seq, n)...)
							seq++
						}
						ln := int64(len(data))
						cb := func(gc gnet.Conn, err error) error {
							mon.inCallback(gc, "AsyncWrite-callback", func() {
								if err != nil {
									s.fail(mon, cs, d, "async write failed on an open connection", fmt.Sprintf("producer %d: callback got %v", pi, err))
								} else {
									d.settleOpen()
									d.accepted.Add(ln)
									d.issued[pi].Add(int64(kk))
									if gc != nil {
										s.checkBuffered(mon, cs, d, gc, "async callback")
									}
								}
								d.asyncLeft.Add(-1)
							})
							return nil
						}
						d.asyncLeft.Add(1)
						var err error
						if ar.Bool() {
							err = cs.c.AsyncWrite(data, cb)
							s.key(c.class() + "|asyncwrite")
						} else {
							err = cs.c.AsyncWritev(splitSegs(ar, data), cb)
							s.key(c.class() + "|asyncwritev")
						}
						if err != nil {
							d.asyncLeft.Add(-1)
							s.fail(mon, cs, d, "async write rejected on an open connection", fmt.Sprintf("producer %d: %v", pi, err))
							return
						}
						d.ops.Add(1)
						if ar.Intn(4) == 0 {
							time.Sleep(time.Duration(ar.Intn(300)) * time.Microsecond)
						}
					}
				}(pi, pr.Fork())
			}
			// driver of the synchronous script: one Wake per batch
			for !d.syncDone.Load() && !d.failed.Load() && !d.closedSeen.Load() {
				b0 := d.batches.Load()
				if err := cs.c.Wake(nil); err != nil {
					break
				}
				dl := time.Now().Add(10 * time.Second)
				for d.batches.Load() == b0 && time.Now().Before(dl) && !d.closedSeen.Load() {
					time.Sleep(50 * time.Microsecond)
				}
				if d.batches.Load() == b0 {
					break // the stuck predicate below decides
				}
			}
			pwg.Wait()
			// all async callbacks in, then drain and close
			ok, verdict := waitCond(10*time.Second, func() bool { return d.asyncLeft.Load() == 0 || d.failed.Load() })
			if !ok {
				if verdictStuck(verdict) {
					s.fail(mon, cs, d, "async write callback never ran", fmt.Sprintf("%d asynchronous writes accepted without error never completed; %s", d.asyncLeft.Load(), verdict))
				} else {
					res.Inconc("c02 %s: async callbacks outstanding: %s", c, verdict)
				}
			}
			// drain: no further stimulus from the harness. The peer keeps reading; everything accepted must
			// arrive without anybody waking the loop again (observed at the peer, not through the Conn).
			ok, verdict = waitCond(10*time.Second, func() bool {
				return d.closedSeen.Load() || d.failed.Load() || p.nread.Load() >= d.accepted.Load()+int64(len(d.openReply))
			})
			if !ok && !d.failed.Load() {
				// server-side evidence that something is still unsent: the kernel has taken fewer bytes than were accepted
				// (a starved peer goroutine that has not read its receive queue yet is not the framework's stall)
				unsent := int64(1)
				if fi, okf := vsys.Info(cs.fd); okf && fi.State == 1 {
					unsent = d.accepted.Load() - fi.Wr
				}
				if verdictStuck(verdict) && unsent > 0 {
					s.fail(mon, cs, d, "stall: accepted data never sent although the peer keeps reading", fmt.Sprintf("peer (%s) has read %d bytes and keeps reading; %d bytes were accepted, %d of them never handed to the kernel; OutboundBuffered last seen %d; %s", p.schedule, p.nread.Load(), d.accepted.Load(), unsent, d.maxBuffered.Load(), verdict))
				} else {
					res.Inconc("c02 %s: output did not drain: %s", c, verdict)
				}
			}
			d.closing.Store(true)
			ok, verdict = waitCond(10*time.Second, func() bool {
				if d.closedSeen.Load() || d.failed.Load() {
					return true
				}
				_ = cs.c.Wake(nil)
				time.Sleep(2 * time.Millisecond)
				return d.closedSeen.Load()
			})
			if !ok && !d.failed.Load() {
				res.Inconc("c02 %s: connection did not close after draining: %s", c, verdict)
			}
			select {
			case <-rdone:
			case <-time.After(20 * time.Second):
				p.err = errors.New("peer reader did not finish")
			}
			closePeer(conn)
			// ---- offline check of the received stream
			if d.failed.Load() {
				return
			}
			if p.err != nil || !p.eof {
				res.Inconc("c02 %s: peer read ended with %v (eof=%v) schedule=%s read=%d accepted=%d closedSeen=%v closeErr=%v fdident=%q", c, p.err, p.eof, p.schedule, len(p.data), d.accepted.Load(), d.closedSeen.Load(), cs.closeErr, fdIdent(cs.fd))
				return
			}
			recs, bad, reason := parseRecords(d.key, p.data)
			if bad >= 0 {
				s.fail(mon, cs, d, "received stream damaged", fmt.Sprintf("at received offset %d of %d: %s (peer schedule %s; %d records parsed before)", bad, len(p.data), reason, p.schedule, len(recs)))
				return
			}
			var next [4]uint32
			for _, rc := range recs {
				if rc.producer > 3 {
					s.fail(mon, cs, d, "received stream damaged", fmt.Sprintf("record of unknown producer %d", rc.producer))
					return
				}
				if rc.seq != next[rc.producer] {
					kind := "reordered"
					if rc.seq < next[rc.producer] {
						kind = "duplicated"
					} else if rc.seq > next[rc.producer] {
						kind = "lost-or-reordered"
					}
					s.fail(mon, cs, d, "records of one producer "+kind, fmt.Sprintf("producer %d: received seq %d at stream offset %d, expected seq %d (issue order)", rc.producer, rc.seq, rc.off, next[rc.producer]))
					return
				}
				next[rc.producer]++
			}
			for pi := 0; pi < 4; pi++ {
				if int64(next[pi]) != d.issued[pi].Load() {
					s.fail(mon, cs, d, "accepted records missing at the peer", fmt.Sprintf("producer %d: %d records accepted, %d received before the orderly close", pi, d.issued[pi].Load(), next[pi]))
					return
				}
			}
			res.Obs("c02_records_verified", int64(len(recs)))
			res.Obs("c02_bytes_verified", int64(len(p.data)))
			s.key(c.class() + "|peer|" + p.schedule)
		}(i, p, pr)
	}
	wg.Wait()
	for _, p := range peers {
		if p.err != nil {
			res.Inconc("c02 %s: peer: %v", c, p.err)
		} else {
			evals++
		}
	}
	res.Obs("c02_connections", int64(npeers))
	s.ending.Store(true)
	if life != nil {
		if err := life.stop(10 * time.Second); err != nil {
			res.Inconc("c02 %s: stop: %v", c, err)
		}
	} else {
		_ = ln.Close()
		done := make(chan error, 1)
		go func() { done <- cli.Stop() }()
		select {
		case <-done:
			mon.noteRunReturned(vsys.Seq())
		case <-time.After(10 * time.Second):
			res.Inconc("c02 %s: Client.Stop did not return", c)
		}
	}
	return evals
}
