//go:build verif

package main

import (
	"context"
	"errors"
	"fmt"
	"net"
	"strings"
	"sync"
	"sync/atomic"
	"time"

	"golang.org/x/sys/unix"

	gnet "github.com/panjf2000/gnet/v2"
	errorx "github.com/panjf2000/gnet/v2/pkg/errors"
	"github.com/panjf2000/gnet/v2/pkg/vsys"
	"github.com/panjf2000/gnet/v2/zzverif/vlib"
)

// ---- C19: control API state machine -------------------------------------------------------

const (
	stNever = iota
	stRunning
	stStopping
	stDown
)

type c19Ctx struct {
	c           cfg
	mon         *monitor
	life        *engineLife
	state       atomic.Int32
	keys        map[string]struct{}
	kmu         sync.Mutex
	evals       atomic.Int64
	pend        sync.WaitGroup // Register result channels being awaited
	emfileDump  atomic.Bool
	outstanding atomic.Int64 // registrations whose result is being awaited (each holds descriptors until it is decided)
	ncMu        sync.Mutex
	ncs         []net.Conn // connections handed to Register(conn), closed by the harness at the end of the life
	hung        atomic.Int64
	okRegs      atomic.Int64
}

func (x *c19Ctx) key(k string) {
	x.kmu.Lock()
	x.keys[k] = struct{}{}
	x.kmu.Unlock()
}

func stName(s int32) string {
	return []string{"never-started", "running", "shutting-down", "shut-down"}[s]
}

// expectErr checks an error return against the state model.
func (x *c19Ctx) expectErr(call string, before, after int32, err error) {
	x.evals.Add(1)
	ok := false
	// the state may have advanced during the call: accept the answer of any state in [before, after]
	for s := before; s <= after; s++ {
		switch s {
		case stNever:
			ok = ok || errors.Is(err, errorx.ErrEmptyEngine)
		case stRunning:
			ok = ok || err == nil
		case stStopping:
			ok = true // transitional: the statement only demands no hang, no panic, no resurrection
		case stDown:
			ok = ok || errors.Is(err, errorx.ErrEngineInShutdown)
		}
	}
	if !ok {
		res.Violate(fmt.Sprintf("C19 %s wrong result state=%s", call, stName(before)), fmt.Sprintf("%s returned %v while the engine was %s..%s", call, err, stName(before), stName(after)), map[string]any{"config": x.c.String()})
	}
	x.key(call + "|" + stName(before))
}

// awaitResult checks that a Register/Enroll channel yields exactly one value and is then closed.
func (x *c19Ctx) awaitResult(call string, ch <-chan gnet.RegisteredResult, peerSide net.Conn) {
	x.pend.Add(1)
	x.outstanding.Add(1)
	go func() {
		defer x.pend.Done()
		defer x.outstanding.Add(-1)
		if peerSide != nil {
			defer peerSide.Close()
		}
		select {
		case rr, ok := <-ch:
			if !ok {
				res.Violate("C19 "+call+" channel closed without a result", "the result channel was closed before any value was delivered", map[string]any{"config": x.c.String()})
				return
			}
			if rr.Err == nil && rr.Conn == nil {
				res.Violate("C19 "+call+" delivered neither a connection nor an error", "", nil)
				return
			}
			if rr.Conn != nil {
				x.okRegs.Add(1)
				// usable: OnOpen has run for it
				if _, ok := x.mon.openedConns.Load(rr.Conn); !ok {
					res.Violate("C19 "+call+" delivered a connection whose OnOpen has not run", "", map[string]any{"config": x.c.String()})
				}
				_ = rr.Conn.Close()
			}
			select {
			case rr2, ok := <-ch:
				if ok {
					res.Violate("C19 "+call+" delivered more than one result", fmt.Sprintf("second value: %+v", rr2), nil)
				}
			case <-time.After(3 * time.Second):
				res.Violate("C19 "+call+" channel not closed after its result", "the result channel stayed open for 3s after delivering its value", map[string]any{"config": x.c.String()})
			}
			x.key(call + "|result|" + map[bool]string{true: "conn", false: "error"}[rr.Conn != nil])
		case <-time.After(4 * time.Second):
			// bounded: once the engine has shut down no loop exists that could still run the registration task, so a
			// channel that is still silent then can never deliver (state-based, no wall-clock verdict)
			for k := 0; k < 200 && x.state.Load() != stDown; k++ {
				select {
				case <-ch:
					return
				case <-time.After(100 * time.Millisecond):
				}
			}
			select {
			case <-ch:
				return
			case <-time.After(1500 * time.Millisecond):
			}
			x.hung.Add(1)
			if x.state.Load() == stDown {
				res.Violate("C19 "+call+" result never delivered", fmt.Sprintf("%s returned a channel and no error; the engine has shut down meanwhile and the channel has delivered nothing and is not closed", call), map[string]any{"config": x.c.String()})
			} else {
				res.Inconc("c19: %s result pending after 25s while the engine is %s", call, stName(x.state.Load()))
			}
		}
	}()
}

func (x *c19Ctx) randomCall(r *vlib.Rand, e gnet.Engine) {
	before := x.state.Load()
	switch r.Intn(12) {
	case 0:
		err := e.Validate()
		x.expectErr("Validate", before, x.state.Load(), err)
	case 1:
		n := e.CountConnections()
		after := x.state.Load()
		x.evals.Add(1)
		ok := false
		for s := before; s <= after; s++ {
			ok = ok || (s == stNever || s == stDown) && n == -1 || s == stRunning && n >= 0 || s == stStopping
		}
		if !ok {
			res.Violate("C19 CountConnections wrong result state="+stName(before), fmt.Sprintf("CountConnections() = %d while the engine was %s..%s", n, stName(before), stName(after)), nil)
		}
		x.key("CountConnections|" + stName(before))
	case 2:
		fd, err := e.Dup()
		if err == nil {
			vsys.Disown(fd, "Engine.Dup")
			if fdIdent(fd) == "" {
				res.Violate("C19 Dup returned a descriptor that is not open", fmt.Sprint(fd), nil)
			}
			vsys.ForeignDel(fd)
			_ = unix.Close(fd)
		} else if fd != -1 {
			res.Violate("C19 Dup returned an error together with a descriptor", fmt.Sprintf("(%d, %v)", fd, err), nil)
		}
		if err != nil && strings.Contains(err.Error(), "too many open files") && x.emfileDump.CompareAndSwap(false, true) {
			// diagnosis aid: who holds the descriptors?
			byClass := map[string]int{}
			for _, fi := range vsys.Owned() {
				byClass[fi.Class+"@"+fi.Site]++
			}
			kinds := map[string]int{}
			for _, id := range fdTable() {
				kinds[kindOf(id)]++
			}
			res.Note("c19: EMFILE inside a life: ledger %v; descriptor table %v; pending registrations %d", byClass, kinds, x.evals.Load())
		}
		x.expectErr("Dup", before, x.state.Load(), err)
	case 3:
		network, addr := "tcp", "127.0.0.1:1"
		if x.life != nil {
			network = x.c.Net
			if network == "tcp6" {
				network = "tcp"
			}
			addr = x.life.addr[len(x.c.Net)+3:]
		}
		fd, err := e.DupListener(network, addr)
		if err == nil {
			vsys.Disown(fd, "Engine.DupListener")
			vsys.ForeignDel(fd)
			_ = unix.Close(fd)
		}
		x.expectErr("DupListener(match)", before, x.state.Load(), err)
	case 4:
		fd, err := e.DupListener("tcp", "203.0.113.9:1")
		x.evals.Add(1)
		after := x.state.Load()
		ok := false
		for s := before; s <= after; s++ {
			ok = ok || s == stNever && errors.Is(err, errorx.ErrEmptyEngine) || (s == stRunning || s == stStopping) && errors.Is(err, errorx.ErrInvalidNetworkAddress) ||
				(s == stDown || s == stStopping) && errors.Is(err, errorx.ErrEngineInShutdown)
		}
		if !ok || (err == nil) {
			if before <= stStopping && after >= stStopping && err != nil {
				break // transitional state
			}
			res.Violate("C19 DupListener(no such listener) wrong result state="+stName(before), fmt.Sprintf("(%d, %v)", fd, err), nil)
		}
		x.key("DupListener(nomatch)|" + stName(before))
	case 5: // Register with an address context
		if x.life == nil || x.life.dialNet == "unix" && before != stNever {
			return
		}
		if x.outstanding.Load() > 400 {
			return // a registration that hangs (the listed finding) keeps its descriptors: bound what is pending at a time
		}
		var addr net.Addr = &net.TCPAddr{IP: net.IPv4(127, 0, 0, 1), Port: 1}
		if x.life != nil && x.life.dialAddr != "" {
			addr, _ = net.ResolveTCPAddr(x.life.dialNet, x.life.dialAddr)
		}
		ch, err := e.Register(gnet.NewNetAddrContext(context.Background(), addr))
		x.expectErr("Register(addr)", before, x.state.Load(), err)
		if err == nil {
			x.awaitResult("Register(addr)", ch, nil)
		} else if ch != nil {
			res.Violate("C19 Register returned an error together with a channel", fmt.Sprint(err), nil)
		}
	case 6: // Register with a net.Conn context
		if x.life == nil || before == stNever {
			ch, err := e.Register(gnet.NewNetConnContext(context.Background(), nil))
			_ = ch
			x.expectErr("Register(conn)", before, x.state.Load(), err)
			return
		}
		if x.outstanding.Load() > 400 {
			return
		}
		nc, derr := net.DialTimeout(x.life.dialNet, x.life.dialAddr, time.Second)
		if derr != nil {
			return
		}
		// the connection given may already be closed, or be closed by its owner while the registration is under way:
		// the single result is then an error (or a usable connection), never an empty value
		how := "open"
		switch r.Intn(5) {
		case 0:
			how = "closed-before"
			_ = nc.Close()
		case 1:
			how = "closed-meanwhile"
			go func() { _ = nc.Close() }()
		}
		x.ncMu.Lock()
		x.ncs = append(x.ncs, nc)
		x.ncMu.Unlock()
		ch, err := e.Register(gnet.NewNetConnContext(context.Background(), nc))
		x.expectErr("Register(conn)", before, x.state.Load(), err)
		if err == nil {
			x.awaitResult("Register(conn)", ch, nc) // the engine works on its own duplicate: the caller's end is closed once the result is in
			x.key("Register(conn)|given-connection-" + how)
		} else {
			_ = nc.Close()
		}
	case 7: // Register with an empty context
		_, err := e.Register(context.Background())
		x.evals.Add(1)
		after := x.state.Load()
		ok := false
		for s := before; s <= after; s++ {
			ok = ok || s == stNever && errors.Is(err, errorx.ErrEmptyEngine) || (s == stRunning || s == stStopping) && errors.Is(err, errorx.ErrInvalidNetworkAddress) ||
				(s == stDown || s == stStopping) && errors.Is(err, errorx.ErrEngineInShutdown)
		}
		if !ok && !(before <= stStopping && after >= stStopping) {
			res.Violate("C19 Register(context without target) wrong result state="+stName(before), fmt.Sprint(err), nil)
		}
		x.key("Register(empty)|" + stName(before))
	case 8: // second Stop with an already expired context must not hang and must not cancel anything
		if before == stNever || before == stDown {
			ctx, cancel := context.WithTimeout(context.Background(), time.Second)
			err := e.Stop(ctx)
			cancel()
			x.expectErr("Stop", before, x.state.Load(), err)
		}
	default:
		err := e.Validate()
		x.expectErr("Validate", before, x.state.Load(), err)
	}
}

func runC19Case(c cfg, seed uint64, stopKind string, addFaults bool, keys map[string]struct{}) int64 {
	r := vlib.NewRand(seed)
	x := &c19Ctx{c: c, keys: keys}
	// 1. a handle that was never started
	var zero gnet.Engine
	for i := 0; i < 40; i++ {
		x.randomCall(r, zero)
	}
	// invalid arguments on an event loop are checked while running (below)
	var loops sync.Map
	slowClose := stopKind == "live" && seed%2 == 0
	var slowDone atomic.Bool
	mon := newMonitor("c19", hooks{
		onOpen: func(cs *connState, gc gnet.Conn) ([]byte, gnet.Action) {
			loops.Store(cs.loopIdx, gc.EventLoop())
			return nil, gnet.None
		},
		onTraffic: func(cs *connState, gc gnet.Conn) gnet.Action {
			_, _ = gc.Discard(-1)
			return gnet.None
		},
		onClose: func(cs *connState, gc gnet.Conn, err error) gnet.Action {
			// a shutdown that takes observable time: the first connection closed by the shutdown lingers in OnClose
			if slowClose && x.state.Load() == stStopping && !slowDone.Swap(true) {
				time.Sleep(700 * time.Millisecond)
			}
			return gnet.None
		},
	})
	x.mon = mon
	vsys.ResetAlarms()
	vsys.ResetLedger()
	vsys.PlanClear()
	defer vsys.PlanClear()
	if vsys.Shimmed && addFaults {
		// every third registration of an enrolled (dup'ed) descriptor fails: Register must then deliver an error
		vsys.PlanSeed(seed)
		vsys.PlanAdd(&vsys.Rule{Call: vsys.CEpollAdd, FD: -1, Class: "dup", Every: 3, Action: vsys.AErrno, Errno: unix.ENOMEM})
		x.key("register-with-failing-epoll_ctl_add")
	}
	if !slowClose && stopKind == "live" {
		// a ticker whose callbacks take a while: Stop usually meets one in flight, and must wait for it
		c.Ticker = true
		mon.slowTick = time.Duration(1+r.Intn(4)) * time.Millisecond
		mon.h.onTick = func() (time.Duration, gnet.Action) { return 300 * time.Microsecond, gnet.None }
		x.key("slow-ticker|" + map[bool]string{true: "reuseport", false: "reactor"}[c.ReusePort])
	}
	life, err := startServer(c, mon)
	if err != nil {
		res.Inconc("c19 %s: engine did not start: %v", c, err)
		return 0
	}
	x.life = life
	x.state.Store(stRunning)
	// a few ordinary connections
	var peers []net.Conn
	for i := 0; i < 4; i++ {
		if pc, err := dialPeer(life.dialNet, life.dialAddr); err == nil {
			peers = append(peers, pc)
		}
	}
	waitCond(3*time.Second, func() bool { return mon.opened.Load() >= int64(len(peers)) })
	for _, cs := range mon.snapshot() {
		cs.armedLocal.Store(true)
		cs.armedRemote.Store(true)
	}
	// invalid arguments
	loops.Range(func(k, v any) bool {
		el := v.(gnet.EventLoop)
		if _, err := el.Register(context.Background(), nil); !errors.Is(err, errorx.ErrInvalidNetworkAddress) {
			res.Violate("C19 EventLoop.Register(nil address) wrong result", fmt.Sprint(err), nil)
		}
		if _, err := el.Enroll(context.Background(), nil); !errors.Is(err, errorx.ErrInvalidNetConn) {
			res.Violate("C19 EventLoop.Enroll(nil connection) wrong result", fmt.Sprint(err), nil)
		}
		if err := el.Execute(context.Background(), nil); !errors.Is(err, errorx.ErrNilRunnable) {
			res.Violate("C19 EventLoop.Execute(nil runnable) wrong result", fmt.Sprint(err), nil)
		}
		x.evals.Add(3)
		x.key("invalid-arguments|running")
		return false
	})
	// registrations awaited while the engine keeps running (some of them with a failing epoll_ctl ADD): each
	// must deliver its single result promptly; a silent channel here has nothing to do with shutdown
	if life.dialNet != "unix" {
		addr, _ := net.ResolveTCPAddr(life.dialNet, life.dialAddr)
		for i := 0; i < 6; i++ {
			ch, err := life.eng.Register(gnet.NewNetAddrContext(context.Background(), addr))
			x.evals.Add(1)
			if err != nil {
				res.Violate("C19 Register(addr) wrong result state=running", fmt.Sprint(err), nil)
				continue
			}
			select {
			case rr, ok := <-ch:
				if !ok || (rr.Conn == nil && rr.Err == nil) {
					res.Violate("C19 Register(addr) channel closed without a result", "while the engine keeps running", nil)
				} else if rr.Conn != nil {
					if _, ok := mon.openedConns.Load(rr.Conn); !ok {
						res.Violate("C19 Register(addr) delivered a connection whose OnOpen has not run", "while the engine keeps running", map[string]any{"config": c.String()})
					}
					_ = rr.Conn.Close()
				}
				x.key("Register(addr)|awaited-while-running|" + map[bool]string{true: "conn", false: "error"}[rr.Conn != nil])
			case <-time.After(5 * time.Second):
				stuck, desc := loopsStuck()
				select {
				case <-ch:
				default:
					if stuck {
						res.Violate("C19 Register(addr) result never delivered while the engine keeps running", "the engine is running and idle ("+desc+"), the registration was accepted 7s ago and its channel is silent", map[string]any{"config": c.String()})
					} else {
						res.Inconc("c19: Register result pending for 7s on a running engine (%s)", desc)
					}
				}
			}
		}
	}
	// 2. calls from several goroutines while running, then while Stop is under way, then afterwards
	stopCalls := make(chan struct{})
	var wg sync.WaitGroup
	ng := r.Pick(1, 2, 4, 8)
	for g := 0; g < ng; g++ {
		wg.Add(1)
		go func(pr *vlib.Rand) {
			defer wg.Done()
			for {
				select {
				case <-stopCalls:
					return
				default:
				}
				x.randomCall(pr, life.eng)
				if pr.Intn(4) == 0 {
					time.Sleep(time.Duration(pr.Intn(300)) * time.Microsecond)
				}
			}
		}(r.Fork())
	}
	time.Sleep(time.Duration(5+r.Intn(20)) * time.Millisecond)
	// 3. Stop
	x.state.Store(stStopping)
	var stopErr error
	stopRet := make(chan struct{})
	go func() {
		defer close(stopRet)
		switch stopKind {
		case "live":
			ctx, cancel := context.WithTimeout(context.Background(), 20*time.Second)
			defer cancel()
			stopErr = life.eng.Stop(ctx)
			if stopErr == nil {
				// Stop returned nil: the engine must be fully shut down at this very moment
				seqNow := vsys.Seq()
				if mon.shutdowns.Load() != 1 {
					res.Violate("C19 Stop returned nil before OnShutdown ran", fmt.Sprintf("OnShutdown invocations so far: %d", mon.shutdowns.Load()), nil)
				}
				for _, cs := range mon.snapshot() {
					if atomic.LoadInt32(&cs.closes) == 0 {
						res.Violate("C19 Stop returned nil before every connection was closed", fmt.Sprintf("connection %d has no OnClose yet at seq %d", cs.tok, seqNow), map[string]any{"config": c.String()})
						break
					}
				}
				if err := life.eng.Validate(); !errors.Is(err, errorx.ErrEngineInShutdown) {
					res.Violate("C19 Validate after a successful Stop", fmt.Sprint(err), nil)
				}
				if n := mon.inFlight.Load(); n > 0 {
					res.Violate("C19 Stop returned nil while a callback of the engine was still executing", fmt.Sprintf("%d callbacks in flight (ticker interval/duration %v)", n, mon.slowTick), map[string]any{"config": c.String()})
				}
			}
		case "expired":
			ctx, cancel := context.WithCancel(context.Background())
			cancel()
			stopErr = life.eng.Stop(ctx)
			if !errors.Is(stopErr, context.Canceled) && stopErr != nil {
				res.Violate("C19 Stop with an expired context returned a foreign error", fmt.Sprint(stopErr), nil)
			}
		case "soon":
			ctx, cancel := context.WithTimeout(context.Background(), time.Duration(r.Intn(800))*time.Microsecond)
			defer cancel()
			stopErr = life.eng.Stop(ctx)
			if stopErr != nil && !errors.Is(stopErr, context.DeadlineExceeded) {
				res.Violate("C19 Stop with a soon-expiring context returned a foreign error", fmt.Sprint(stopErr), nil)
			}
		}
	}()
	select {
	case <-stopRet:
	case <-time.After(25 * time.Second):
		res.Violate("C19 Stop call hangs kind="+stopKind, "Engine.Stop has not returned after 25s", map[string]any{"config": c.String(), "dump": trimDump(vlib.NormalizeDump(vlib.GoroutineDump()))})
	}
	// the shutdown must complete whatever happened to the context of Stop
	if !life.waitDone(15 * time.Second) {
		d1 := vlib.NormalizeDump(vlib.GoroutineDump())
		time.Sleep(2 * time.Second)
		d2 := vlib.NormalizeDump(vlib.GoroutineDump())
		if !life.waitDone(time.Millisecond) {
			if d1 == d2 {
				res.Violate("C19 Run did not return after Stop kind="+stopKind, fmt.Sprintf("Stop(%s context) returned %v, Run has not returned 17s later and the goroutine dumps are identical", stopKind, stopErr), map[string]any{"config": c.String(), "dump": trimDump(d2)})
			} else {
				res.Inconc("c19 %s: Run not returned 17s after Stop(%s)", c, stopKind)
			}
		}
	}
	x.state.Store(stDown)
	time.Sleep(time.Millisecond)
	close(stopCalls)
	wg.Wait()
	// 4. after shutdown: every call reports the in-shutdown error and has no effect
	cb0 := mon.callbacks.Load()
	for i := 0; i < 60; i++ {
		x.randomCall(r, life.eng)
	}
	x.pend.Wait()
	for _, pc := range peers {
		closePeer(pc)
	}
	time.Sleep(2 * time.Millisecond)
	if mon.callbacks.Load() != cb0 {
		res.Violate("C19 call after shutdown had an effect", fmt.Sprintf("%d callbacks ran after the engine had shut down", mon.callbacks.Load()-cb0), nil)
	}
	mon.lifecycleSummary(life.retSeq)
	for _, a := range vsys.Alarms() {
		res.Violate(fmt.Sprintf("C07 %s op=%s site=%s", a.Kind, a.Op, a.Site), fmt.Sprintf("config %s: %s on fd %d: %s", c, a.Kind, a.FD, a.Detail), map[string]any{"config": c.String()})
	}
	for _, fi := range vsys.Owned() {
		if fi.Class == "adopted" || fdIdent(fi.FD) == "" {
			continue
		}
		res.Violate(fmt.Sprintf("C07 leak class=%s site=%s registered=%v", fi.Class, fi.Site, fi.Registered), fmt.Sprintf("config %s: descriptor %d (%s, created in %s) is still open after the engine shut down (control-API history, Stop kind %s)", c, fi.FD, fi.Class, fi.Site, stopKind), map[string]any{"config": c.String()})
		_ = unix.Close(fi.FD) // reported; reclaimed so that a long run of engine lives does not exhaust the descriptor table
	}
	x.ncMu.Lock()
	for _, nc := range x.ncs {
		_ = nc.Close() // the harness's own ends of connections handed to Register (no-op for those the engine took over)
	}
	x.ncs = nil
	x.ncMu.Unlock()
	x.key("stop|" + stopKind)
	res.Obs("c19_register_results_with_conn", x.okRegs.Load())
	res.Obs("c19_register_hangs", x.hung.Load())
	return x.evals.Load()
}

// runBootStopCase: Stop is issued before the engine has started - inside OnBoot with a context that has already ended,
// or from a goroutine that got the handle in OnBoot while OnBoot is still running. The shutdown is not cancelled by the
// context's end: the engine comes up and goes down again in full (OnShutdown once, Run returns nil, the handle reports
// in-shutdown afterwards).
func runBootStopCase(c cfg, variant string, keys map[string]struct{}) int64 {
	var eng gnet.Engine
	var inBoot, stopErr atomic.Value
	asyncDone := make(chan struct{})
	mon := newMonitor("bootstop", hooks{
		onBoot: func(e gnet.Engine) gnet.Action {
			eng = e
			switch variant {
			case "expired-inside-OnBoot":
				ctx, cancel := context.WithCancel(context.Background())
				cancel()
				stopErr.Store(fmt.Sprint(e.Stop(ctx)))
				close(asyncDone)
			case "live-from-goroutine-during-OnBoot":
				go func() {
					defer close(asyncDone)
					ctx, cancel := context.WithTimeout(context.Background(), 8*time.Second)
					defer cancel()
					stopErr.Store(fmt.Sprint(e.Stop(ctx)))
				}()
				time.Sleep(20 * time.Millisecond) // OnBoot is still running while Stop is called
			}
			inBoot.Store(true)
			return gnet.None
		},
	})
	vsys.ResetAlarms()
	vsys.ResetLedger()
	vsys.PlanClear()
	done := make(chan error, 1)
	go func() { done <- gnet.Run(mon, c.listenAddr(), c.options()...) }()
	select {
	case err := <-done:
		mon.noteRunReturned(vsys.Seq())
		if err != nil {
			res.Violate("C19 Run returned an error after Stop during OnBoot variant="+variant, fmt.Sprint(err), nil)
		}
	case <-time.After(12 * time.Second):
		stuck, desc := loopsStuck()
		if stuck {
			res.Violate("C19 Run does not return after Stop during OnBoot variant="+variant, "Stop was called before the start had completed; 12s later Run has not returned and "+desc, map[string]any{"config": c.String()})
		} else {
			res.Inconc("c19 boot-stop %s: Run not returned after 12s (%s)", variant, desc)
		}
		return 1
	}
	select {
	case <-asyncDone:
	case <-time.After(10 * time.Second):
		res.Violate("C19 Stop issued during OnBoot never returned variant="+variant, "Run has returned; the Stop call is still waiting", nil)
		return 1
	}
	if n := mon.shutdowns.Load(); n != 1 {
		res.Violate("C19 OnShutdown not invoked exactly once after Stop during OnBoot variant="+variant, fmt.Sprintf("Run returned; OnShutdown ran %d times (Stop returned %v)", n, stopErr.Load()), map[string]any{"config": c.String()})
	}
	if err := eng.Validate(); !errors.Is(err, errorx.ErrEngineInShutdown) {
		res.Violate("C19 handle not in shutdown after Run returned variant="+variant, fmt.Sprintf("Validate() = %v, CountConnections() = %d", err, eng.CountConnections()), nil)
	}
	if n := eng.CountConnections(); n != -1 {
		res.Violate("C19 CountConnections after shutdown variant="+variant, fmt.Sprint(n), nil)
	}
	ctx, cancel := context.WithTimeout(context.Background(), time.Second)
	if err := eng.Stop(ctx); !errors.Is(err, errorx.ErrEngineInShutdown) {
		res.Violate("C19 second Stop after Stop during OnBoot variant="+variant, fmt.Sprintf("Stop() = %v, want the in-shutdown error", err), nil)
	}
	cancel()
	if variant == "live-from-goroutine-during-OnBoot" {
		if v, _ := stopErr.Load().(string); v != "<nil>" {
			res.Violate("C19 Stop with a live context during OnBoot did not return nil variant="+variant, v, nil)
		}
	}
	for _, fi := range vsys.Owned() {
		if fi.Class == "adopted" || fdIdent(fi.FD) == "" {
			continue
		}
		res.Violate(fmt.Sprintf("C07 leak class=%s site=%s history=stop-during-OnBoot", fi.Class, fi.Site), fmt.Sprintf("descriptor %d still open after Run returned", fi.FD), nil)
		_ = unix.Close(fi.FD)
	}
	keys["stop-during-OnBoot|"+variant] = struct{}{}
	return 1
}
