//go:build verif

// Harness eng drives real gnet engines (servers and clients) over real sockets with a
// monitoring event handler. One process runs many cases; one case = one engine life.
package main

import (
	"context"
	"fmt"
	"net"
	"os"
	"path/filepath"
	"strconv"
	"strings"
	"sync"
	"sync/atomic"
	"syscall"
	"time"

	"golang.org/x/sys/unix"

	gnet "github.com/panjf2000/gnet/v2"
	"github.com/panjf2000/gnet/v2/pkg/logging"
	"github.com/panjf2000/gnet/v2/pkg/vsys"
	"github.com/panjf2000/gnet/v2/zzverif/vlib"
)

// cfg is one engine configuration.
type cfg struct {
	ET        bool
	Chunk     int // >0: ET with chunk limit
	Loops     int
	ReusePort bool
	Net       string // tcp, tcp6, unix, udp, udp6
	RCap      int
	WCap      int
	SndBuf    int
	RcvBuf    int
	LB        gnet.LoadBalancing
	Ticker    bool
	Client    bool   // gnet is the client side (Client.Dial/Enroll); the harness listens
	Rotate    bool   // start with gnet.Rotate and a second listener of another network
	LinkLocal string // udp6/tcp6: listen on this link-local address ("fe80::1%eth0") instead of ::1
}

func (c cfg) String() string {
	m := "LT"
	if c.ET {
		m = "ET"
		if c.Chunk > 0 {
			m = fmt.Sprintf("ET+chunk%d", c.Chunk)
		}
	}
	d := "reactor"
	if c.ReusePort {
		d = "reuseport"
	}
	role := "server"
	if c.Client {
		role = "client"
	}
	return fmt.Sprintf("%s/%dloops/%s/%s/%s/r%d/w%d/sb%d", m, c.Loops, d, c.Net, role, c.RCap, c.WCap, c.SndBuf)
}

// class is the coarse configuration class used in distinct-case keys.
func (c cfg) class() string {
	m := "LT"
	if c.ET {
		m = "ET"
		if c.Chunk > 0 {
			m = "ETchunk"
		}
	}
	d := "reactor"
	if c.ReusePort {
		d = "reuseport"
	}
	role := "server"
	if c.Client {
		role = "client"
	}
	l := "1loop"
	if c.Loops > 1 {
		l = "Nloops"
	}
	return m + "/" + l + "/" + d + "/" + c.Net + "/" + role
}

type quietLogger struct{}

func (quietLogger) Debugf(string, ...any) {}
func (quietLogger) Infof(string, ...any)  {}
func (quietLogger) Warnf(string, ...any)  {}
func (quietLogger) Errorf(string, ...any) {}
func (quietLogger) Fatalf(f string, a ...any) {
	fmt.Fprintf(os.Stderr, "gnet FATAL: "+f+"\n", a...)
}

func (c cfg) options() []gnet.Option {
	o := []gnet.Option{
		gnet.WithNumEventLoop(c.Loops),
		gnet.WithReusePort(c.ReusePort),
		gnet.WithLoadBalancing(c.LB),
		gnet.WithTicker(c.Ticker),
		gnet.WithLogger(quietLogger{}),
		gnet.WithLogLevel(logging.ErrorLevel),
	}
	if c.Chunk > 0 {
		o = append(o, gnet.WithEdgeTriggeredIOChunk(c.Chunk))
	} else if c.ET {
		o = append(o, gnet.WithEdgeTriggeredIO(true))
	}
	if c.RCap > 0 {
		o = append(o, gnet.WithReadBufferCap(c.RCap))
	}
	if c.WCap > 0 {
		o = append(o, gnet.WithWriteBufferCap(c.WCap))
	}
	if c.SndBuf > 0 {
		o = append(o, gnet.WithSocketSendBuffer(c.SndBuf))
	}
	if c.RcvBuf > 0 {
		o = append(o, gnet.WithSocketRecvBuffer(c.RcvBuf))
	}
	return o
}

var (
	scratchDir string
	pathCtr    atomic.Int64
	res        *vlib.Result
)

func unixPath(tag string) string {
	return filepath.Join(scratchDir, fmt.Sprintf("u%d-%s-%d.sock", os.Getpid(), tag, pathCtr.Add(1)))
}

// listenAddr returns the gnet address string for a fresh listener of this configuration. TCP/UDP listeners
// get a port that was free a moment ago (found by binding port 0 once): with SO_REUSEPORT every event loop
// opens its own listener from the address STRING, so ":0" would give every loop a different port.
var portCtr atomic.Int64

func (c cfg) listenAddr() string {
	probe := func(network, host string) int {
		// listening ports come from a slice of 20000-31999 that belongs to this process (by pid), below the kernel's
		// ephemeral range: two checks running at the same time never hand each other's just-released port to an engine
		// (with SO_REUSEPORT both would even bind it and share each other's connections)
		base := 20000 + (os.Getpid()%60)*200
		for k := 0; k < 200; k++ {
			port := base + int(portCtr.Add(1))%200
			addr := net.JoinHostPort(host, strconv.Itoa(port))
			if strings.HasPrefix(network, "udp") {
				pc, err := net.ListenPacket(network, addr)
				if err != nil {
					continue
				}
				_ = pc.Close()
				return port
			}
			l, err := net.Listen(network, addr)
			if err != nil {
				continue
			}
			_ = l.Close()
			return port
		}
		if strings.HasPrefix(network, "udp") {
			pc, err := net.ListenPacket(network, net.JoinHostPort(host, "0"))
			if err != nil {
				return 0
			}
			defer pc.Close()
			return pc.LocalAddr().(*net.UDPAddr).Port
		}
		l, err := net.Listen(network, net.JoinHostPort(host, "0"))
		if err != nil {
			return 0
		}
		defer l.Close()
		return l.Addr().(*net.TCPAddr).Port
	}
	switch c.Net {
	case "tcp":
		return fmt.Sprintf("tcp://127.0.0.1:%d", probe("tcp4", "127.0.0.1"))
	case "tcp6":
		return fmt.Sprintf("tcp6://[::1]:%d", probe("tcp6", "::1"))
	case "udp":
		return fmt.Sprintf("udp://127.0.0.1:%d", probe("udp4", "127.0.0.1"))
	case "udp6":
		if c.LinkLocal != "" {
			return fmt.Sprintf("udp6://[%s]:%d", c.LinkLocal, probe("udp6", c.LinkLocal))
		}
		return fmt.Sprintf("udp6://[::1]:%d", probe("udp6", "::1"))
	case "unix":
		return "unix://" + unixPath("srv")
	}
	panic("bad net " + c.Net)
}

// ---------------------------------------------------------------------------
// engine life
// ---------------------------------------------------------------------------

// engineLife is one running gnet server engine.
type engineLife struct {
	cfg      cfg
	mon      *monitor
	addr     string // gnet address string given to Run
	dialNet  string
	dialAddr string // where peers connect to
	eng      gnet.Engine
	booted   chan struct{}
	done     chan struct{} // closed when Run returned
	runErr   error
	retSeq   int64 // seq at which Run returned
	udpAddr  net.Addr
	// second listener (Rotate)
	addr2, dial2Net, dial2Addr string
	// a duplicate of the (first) listener obtained with Engine.Dup/DupListener and kept by the "user" for the whole life
	keptDup int
}

// startServer starts gnet.Run with the monitor as handler and waits until it serves.
func startServer(c cfg, mon *monitor) (*engineLife, error) {
	var el *engineLife
	var err error
	for try := 0; try < 4; try++ {
		el, err = startServerOnce(c, mon)
		if err == nil || !strings.Contains(fmt.Sprint(err), "address already in use") {
			break
		}
	}
	return el, err
}

func startServerOnce(c cfg, mon *monitor) (*engineLife, error) {
	el := &engineLife{cfg: c, mon: mon, addr: c.listenAddr(), booted: make(chan struct{}), done: make(chan struct{}), keptDup: -1}
	mon.life = el
	split := func(a string) (string, string) { // "tcp://127.0.0.1:80" -> ("tcp", "127.0.0.1:80")
		i := strings.Index(a, "://")
		n := a[:i]
		if n == "tcp6" || n == "tcp4" {
			return n, a[i+3:]
		}
		return n, a[i+3:]
	}
	el.dialNet, el.dialAddr = split(el.addr)
	if c.Rotate {
		c2 := c
		if c.Net == "unix" {
			c2.Net = "tcp"
		} else {
			c2.Net = "unix"
		}
		el.addr2 = c2.listenAddr()
		el.dial2Net, el.dial2Addr = split(el.addr2)
	}
	go func() {
		var err error
		if c.Rotate {
			err = gnet.Rotate(mon, []string{el.addr, el.addr2}, c.options()...)
		} else {
			err = gnet.Run(mon, el.addr, c.options()...)
		}
		el.runErr = err
		el.retSeq = vsys.Seq()
		mon.noteRunReturned(el.retSeq)
		close(el.done)
	}()
	select {
	case <-el.booted:
	case <-el.done:
		return el, fmt.Errorf("Run returned before OnBoot: %v", el.runErr)
	case <-time.After(10 * time.Second):
		return el, fmt.Errorf("OnBoot not seen within 10s")
	}
	// The listeners were bound and listening before OnBoot ran. A duplicate of the first listener is taken the way a
	// user would (Dup with one listener, DupListener with several) and kept until after Run returned: it is the
	// user's descriptor and the framework must never close it.
	var lastErr error
	for i := 0; i < 3000; i++ {
		var fd int
		var err error
		if c.Rotate {
			ln, la := el.dialNet, el.dialAddr
			if ln == "tcp6" || ln == "tcp4" {
				ln = "tcp"
			}
			fd, err = el.eng.DupListener(ln, la)
		} else {
			fd, err = el.eng.Dup()
		}
		if err != nil {
			lastErr = err
			time.Sleep(time.Millisecond)
			continue
		}
		vsys.Disown(fd, "Engine.Dup")
		el.keptDup = fd
		if sa, err := unix.Getsockname(fd); err == nil {
			want := el.dialAddr
			got := ""
			switch a := sa.(type) {
			case *unix.SockaddrInet4:
				got = fmt.Sprintf("127.0.0.1:%d", a.Port)
			case *unix.SockaddrInet6:
				got = fmt.Sprintf("[::1]:%d", a.Port)
				if c.LinkLocal != "" {
					got = fmt.Sprintf("[%s]:%d", c.LinkLocal, a.Port)
				}
			case *unix.SockaddrUnix:
				got = a.Name
			}
			if got != want {
				res.Violate("C07 Engine.Dup returned a descriptor that is not the listener", fmt.Sprintf("getsockname on the duplicate says %q, the listener is %q", got, want), nil)
			}
		}
		return el, nil
	}
	return el, fmt.Errorf("Engine.Dup kept failing: %v", lastErr)
}

// checkKeptDup verifies, after Run returned, that the duplicate handed to the user is still open and still the
// listening socket, then closes it.
func (el *engineLife) checkKeptDup() {
	if el.keptDup < 0 {
		return
	}
	fd := el.keptDup
	el.keptDup = -1
	id := fdIdent(fd)
	if !strings.HasPrefix(id, "socket:") {
		res.Violate("C07 descriptor handed to the user (Engine.Dup) was closed by the framework", fmt.Sprintf("after Run returned, fd %d is %q", fd, id), map[string]any{"config": el.cfg.String()})
	} else if _, err := unix.Getsockname(fd); err != nil {
		res.Violate("C07 descriptor handed to the user (Engine.Dup) is unusable after shutdown", fmt.Sprintf("getsockname: %v", err), nil)
	}
	vsys.ForeignDel(fd)
	_ = unix.Close(fd)
}

// stop requests shutdown through Engine.Stop and waits for Run to return. Engine.Stop itself polls the
// shutdown flag every 500 ms, so its return is awaited in the background only (C06/C19 check it explicitly).
func (el *engineLife) stop(timeout time.Duration) error {
	errCh := make(chan error, 1)
	go func() {
		ctx, cancel := context.WithTimeout(context.Background(), timeout)
		defer cancel()
		errCh <- el.eng.Stop(ctx)
	}()
	select {
	case <-el.done:
	case <-time.After(timeout):
		return fmt.Errorf("Run did not return within %v after Stop", timeout)
	}
	el.checkKeptDup()
	select {
	case err := <-errCh:
		return err
	case <-time.After(5 * time.Millisecond):
		return nil
	}
}

// waitDone waits for Run to return.
func (el *engineLife) waitDone(timeout time.Duration) bool {
	select {
	case <-el.done:
		return true
	case <-time.After(timeout):
		return false
	}
}

// ---------------------------------------------------------------------------
// stuck predicate (DESIGN §2.5)
// ---------------------------------------------------------------------------

// loopsStuck samples the shim's poller state three times, one second apart: true iff every
// poller is inside the same blocking epoll_wait at all samples (nothing will ever wake it).
func loopsStuck() (stuck bool, desc string) {
	if !vsys.Shimmed {
		return false, "no shim state in this build"
	}
	var first []vsys.PollerState
	for s := 0; s < 3; s++ {
		ps := vsys.Pollers()
		if len(ps) == 0 {
			return false, "no pollers open"
		}
		for _, p := range ps {
			if !p.InWait || !p.Blocking {
				return false, fmt.Sprintf("poller %d is running (sample %d)", p.Epfd, s)
			}
		}
		if s == 0 {
			first = ps
		} else {
			if len(ps) != len(first) {
				return false, "poller set changed"
			}
			for i := range ps {
				if ps[i].Epfd != first[i].Epfd || ps[i].EntrySeq != first[i].EntrySeq {
					return false, fmt.Sprintf("poller %d woke up between samples", ps[i].Epfd)
				}
			}
		}
		if s < 2 {
			time.Sleep(time.Second)
		}
	}
	return true, fmt.Sprintf("%d pollers blocked in the same epoll_wait(-1) for 2s", len(first))
}

// waitCond polls cond until it holds or the watchdog fires. On a watchdog it evaluates the
// stuck predicate: (true,"") held; (false, "stuck: ...") violation; (false, "inconclusive: ...").
func waitCond(watchdog time.Duration, cond func() bool) (ok bool, verdict string) {
	deadline := time.Now().Add(watchdog)
	for {
		if cond() {
			return true, ""
		}
		if time.Now().After(deadline) {
			break
		}
		time.Sleep(200 * time.Microsecond)
	}
	stuck, desc := loopsStuck()
	if cond() {
		return true, ""
	}
	if stuck {
		return false, "stuck: " + desc
	}
	// retry with a longer watchdog once
	deadline = time.Now().Add(3 * watchdog)
	for time.Now().Before(deadline) {
		if cond() {
			return true, ""
		}
		time.Sleep(time.Millisecond)
	}
	stuck, desc2 := loopsStuck()
	if cond() {
		return true, ""
	}
	if stuck {
		return false, "stuck: " + desc2
	}
	return false, "inconclusive: " + desc + "; " + desc2
}

// ---------------------------------------------------------------------------
// descriptor table snapshots (C07 observer 2)
// ---------------------------------------------------------------------------

// fdTable returns fd -> readlink identity of /proc/self/fd.
func fdTable() map[int]string {
	out := map[int]string{}
	ents, err := os.ReadDir("/proc/self/fd")
	if err != nil {
		return out
	}
	for _, e := range ents {
		var fd int
		if _, err := fmt.Sscanf(e.Name(), "%d", &fd); err != nil {
			continue
		}
		l, err := os.Readlink("/proc/self/fd/" + e.Name())
		if err != nil {
			continue
		}
		out[fd] = l
	}
	return out
}

// fdIdent returns the identity string of one descriptor ("" if closed).
func fdIdent(fd int) string {
	l, err := os.Readlink(fmt.Sprintf("/proc/self/fd/%d", fd))
	if err != nil {
		return ""
	}
	return l
}

// ---------------------------------------------------------------------------
// peers
// ---------------------------------------------------------------------------

var dialMu sync.Mutex

// dialPeer connects a plain harness-side socket to the engine. For unix sockets the peer
// binds to a private path so that its address is unique.
func dialPeer(network, addr string) (net.Conn, error) {
	d := net.Dialer{Timeout: 5 * time.Second}
	if network == "unix" {
		lp := unixPath("peer")
		d.LocalAddr = &net.UnixAddr{Name: lp, Net: "unix"}
	}
	var c net.Conn
	var err error
	for i := 0; i < 50; i++ {
		c, err = d.Dial(network, addr)
		if err == nil {
			return c, nil
		}
		if strings.Contains(err.Error(), "refused") || strings.Contains(err.Error(), "no such file") {
			time.Sleep(2 * time.Millisecond)
			continue
		}
		break
	}
	return nil, err
}

func closePeer(c net.Conn) {
	if c == nil {
		return
	}
	la := c.LocalAddr()
	_ = c.Close()
	// only a dialling peer's own bound path: for a connection accepted by a harness listener LocalAddr is the LISTENER's path
	if ua, ok := la.(*net.UnixAddr); ok && ua != nil && strings.HasPrefix(ua.Name, scratchDir) && strings.Contains(ua.Name, "-peer-") {
		_ = os.Remove(ua.Name)
	}
}

// setLinger0 makes the next Close send RST.
func setLinger0(c net.Conn) {
	if tc, ok := c.(*net.TCPConn); ok {
		_ = tc.SetLinger(0)
	}
}

func rawFd(c net.Conn) int {
	sc, ok := c.(syscall.Conn)
	if !ok {
		return -1
	}
	rc, err := sc.SyscallConn()
	if err != nil {
		return -1
	}
	fd := -1
	_ = rc.Control(func(f uintptr) { fd = int(f) })
	return fd
}

func setSockBuf(c net.Conn, snd, rcv int) {
	fd := rawFd(c)
	if fd < 0 {
		return
	}
	if snd > 0 {
		_ = unix.SetsockoptInt(fd, unix.SOL_SOCKET, unix.SO_SNDBUF, snd)
	}
	if rcv > 0 {
		_ = unix.SetsockoptInt(fd, unix.SOL_SOCKET, unix.SO_RCVBUF, rcv)
	}
}

func addrKey(s string) uint64 {
	h := uint64(1469598103934665603)
	for i := 0; i < len(s); i++ {
		h = (h ^ uint64(s[i])) * 1099511628211
	}
	return vlib.Mix(h)
}

// pairwise-ish configuration lists ------------------------------------------------

func streamConfigs(r *vlib.Rand, thorough bool, n int) []cfg {
	var all []cfg
	modes := []struct {
		et    bool
		chunk int
	}{{false, 0}, {true, 0}, {true, 2048}, {true, 8192}}
	for _, m := range modes {
		for _, loops := range []int{1, 4} {
			for _, rp := range []bool{false, true} {
				for _, nw := range []string{"tcp", "tcp6", "unix"} {
					for _, rc := range []int{1024, 4096, 65536} {
						if nw == "unix" && rp {
							continue // gnet disables reuseport for unix sockets
						}
						all = append(all, cfg{ET: m.et, Chunk: m.chunk, Loops: loops, ReusePort: rp, Net: nw, RCap: rc, WCap: rc})
					}
				}
			}
		}
	}
	// seed-determined shuffle, then take n (all when thorough and n<=0)
	for i := len(all) - 1; i > 0; i-- {
		j := r.Intn(i + 1)
		all[i], all[j] = all[j], all[i]
	}
	if n <= 0 || n > len(all) {
		n = len(all)
	}
	// make sure the first picks cover every mode and network
	return all[:n]
}
