//go:build verif

package main

import (
	"errors"
	"fmt"
	"io"
	"net"
	"sync"
	"sync/atomic"
	"time"

	"golang.org/x/sys/unix"

	gnet "github.com/panjf2000/gnet/v2"
	"github.com/panjf2000/gnet/v2/pkg/vsys"
	"github.com/panjf2000/gnet/v2/zzverif/vlib"
)

// ---- C01: inbound stream integrity -------------------------------------------------

type c01Conn struct {
	rnd            *vlib.Rand
	key            uint64
	consumed       int64
	maxOffered     atomic.Int64
	offeredAtClose int64
	closed         atomic.Bool
	failed         bool
	cfgClass       string
	ops            int64
}

type limitedWriter struct {
	max  int
	err  error
	got  []byte
	call int
}

func (w *limitedWriter) Write(p []byte) (int, error) {
	w.call++
	n := len(p)
	if w.max >= 0 && n > w.max {
		n = w.max
	}
	w.got = append(w.got, p[:n]...)
	if w.max >= 0 {
		w.max -= n
	}
	if n < len(p) {
		if w.err != nil {
			return n, w.err
		}
		return n, io.ErrShortWrite
	}
	return n, nil
}

type c01Scenario struct {
	c            cfg
	seed         uint64
	keys         map[string]struct{}
	kmu          sync.Mutex
	checkedOps   atomic.Int64
	checkedBytes atomic.Int64
}

func (s *c01Scenario) key(k string) {
	s.kmu.Lock()
	s.keys[k] = struct{}{}
	s.kmu.Unlock()
}

func bufClass(inb, cur int) string {
	switch {
	case inb == 0 && cur == 0:
		return "empty"
	case inb == 0:
		return "fresh-only"
	case cur == 0:
		return "leftover-only"
	}
	return "leftover+fresh"
}

func argClass(k, buffered int) string {
	switch {
	case k < 0:
		return "neg"
	case k == 0:
		return "0"
	case k == 1:
		return "1"
	case k == buffered:
		return "=buffered"
	case k == buffered+1:
		return "buffered+1"
	case k == buffered-1:
		return "buffered-1"
	case k < buffered:
		return "<buffered"
	}
	return ">buffered"
}

func (s *c01Scenario) fail(m *monitor, cs *connState, d *c01Conn, sig, detail string) {
	if d.failed {
		return
	}
	d.failed = true
	m.violate("C01 "+sig+" cfg="+s.c.class(), fmt.Sprintf("connection %d (key %x, consumed %d): %s", cs.tok, d.key, d.consumed, detail))
}

// conservation checks consumed + InboundBuffered against the bytes the kernel delivered.
func (s *c01Scenario) conservation(m *monitor, cs *connState, d *c01Conn, c gnet.Conn, where string) {
	off := d.consumed + int64(c.InboundBuffered())
	if off < d.maxOffered.Load() {
		s.fail(m, cs, d, "consumed+buffered decreased", fmt.Sprintf("%s: consumed+InboundBuffered=%d, was %d earlier", where, off, d.maxOffered.Load()))
		return
	}
	d.maxOffered.Store(off)
	if vsys.Shimmed {
		if fi, ok := vsys.Info(cs.fd); ok && fi.State == 1 && off != fi.Rd {
			s.fail(m, cs, d, "consumed+buffered differs from bytes read", fmt.Sprintf("%s: consumed(%d)+InboundBuffered(%d)=%d but read(2) returned %d bytes so far on fd %d", where, d.consumed, c.InboundBuffered(), off, fi.Rd, cs.fd))
		}
	}
}

func (s *c01Scenario) onTraffic(m *monitor, cs *connState, c gnet.Conn) gnet.Action {
	d := cs.sc.(*c01Conn)
	if d.failed {
		_, _ = c.Discard(-1)
		return gnet.None
	}
	s.conservation(m, cs, d, c, "callback entry")
	r := d.rnd
	nops := r.Pick(0, 1, 1, 1, 2, 3)
	for i := 0; i < nops && !d.failed; i++ {
		buffered := c.InboundBuffered()
		var k int
		switch r.Intn(8) {
		case 0:
			k = 0
		case 1:
			k = 1
		case 2:
			k = buffered
		case 3:
			k = buffered + 1
		case 4:
			if buffered > 1 {
				k = buffered - 1
			} else {
				k = 1
			}
		case 5:
			k = r.Range(1, 64)
		default:
			if buffered > 0 {
				k = r.Range(1, buffered)
			} else {
				k = 3
			}
		}
		op := r.Intn(9)
		before := buffered
		var took int
		opn := ""
		check := func(got []byte, what string) bool {
			if at := vlib.StreamCheck(d.key, d.consumed, got); at >= 0 {
				s.fail(m, cs, d, "content mismatch op="+what, fmt.Sprintf("%s returned a byte that differs from the peer's stream at stream offset %d (buffered %d, arg %d, got %#x want %#x)", what, d.consumed+int64(at), before, k, got[at], vlib.StreamByte(d.key, d.consumed+int64(at))))
				return false
			}
			s.checkedBytes.Add(int64(len(got)))
			return true
		}
		switch op {
		case 0, 1: // Read
			opn = "Read"
			p := make([]byte, k)
			n, err := c.Read(p)
			want := k
			if want > before {
				want = before
			}
			if n != want {
				s.fail(m, cs, d, "count op=Read", fmt.Sprintf("Read(len %d) with %d buffered returned (%d,%v)", k, before, n, err))
				break
			}
			if !check(p[:n], "Read") {
				break
			}
			took = n
		case 2: // Next
			opn = "Next"
			if r.Intn(5) == 0 {
				k = -1
			}
			b, err := c.Next(k)
			if k > before {
				if err == nil || len(b) != 0 {
					s.fail(m, cs, d, "Next beyond buffered did not fail", fmt.Sprintf("Next(%d) with %d buffered returned (%d bytes,%v)", k, before, len(b), err))
				} else if !errors.Is(err, io.ErrShortBuffer) {
					s.fail(m, cs, d, "Next beyond buffered wrong error", fmt.Sprintf("Next(%d) with %d buffered returned error %v", k, before, err))
				}
				break
			}
			if k > 0 && len(b) != k {
				s.fail(m, cs, d, "count op=Next", fmt.Sprintf("Next(%d) with %d buffered returned %d bytes (err %v)", k, before, len(b), err))
				break
			}
			if !check(b, "Next") {
				break
			}
			took = len(b)
		case 3, 4: // Peek then Discard
			opn = "Peek+Discard"
			if r.Intn(5) == 0 {
				k = -1
			}
			b, err := c.Peek(k)
			if k > before {
				if err == nil || len(b) != 0 {
					s.fail(m, cs, d, "Peek beyond buffered did not fail", fmt.Sprintf("Peek(%d) with %d buffered returned (%d bytes,%v)", k, before, len(b), err))
				}
				break
			}
			if k > 0 && len(b) != k || k <= 0 && len(b) != before {
				s.fail(m, cs, d, "count op=Peek", fmt.Sprintf("Peek(%d) with %d buffered returned %d bytes (err %v)", k, before, len(b), err))
				break
			}
			if !check(b, "Peek") {
				break
			}
			if c.InboundBuffered() != before {
				s.fail(m, cs, d, "Peek consumed", fmt.Sprintf("Peek(%d) changed InboundBuffered from %d to %d", k, before, c.InboundBuffered()))
				break
			}
			if r.Intn(4) == 0 { // Peek without Discard
				opn = "Peek"
				break
			}
			j := len(b)
			if j > 0 && r.Bool() {
				j = r.Range(1, j)
			}
			n, err := c.Discard(j)
			if j > 0 && j < before && n != j || j >= before && n != before || n < 0 || n > before {
				s.fail(m, cs, d, "count op=Discard", fmt.Sprintf("Discard(%d) with %d buffered returned (%d,%v)", j, before, n, err))
				break
			}
			took = n
		case 5: // Discard alone
			opn = "Discard"
			n, err := c.Discard(k)
			if k > 0 && k < before && n != k || k >= before && n != before || n < 0 || n > before {
				s.fail(m, cs, d, "count op=Discard", fmt.Sprintf("Discard(%d) with %d buffered returned (%d,%v)", k, before, n, err))
				break
			}
			took = n
		case 6, 7: // WriteTo a possibly short / failing writer
			opn = "WriteTo"
			w := &limitedWriter{max: -1}
			switch r.Intn(4) {
			case 0:
				w.max = r.Intn(before + 1)
				opn = "WriteTo-short"
			case 1:
				w.max = r.Intn(before + 1)
				w.err = errors.New("writer failed")
				opn = "WriteTo-err"
			}
			n, _ := c.WriteTo(w)
			if n != int64(len(w.got)) {
				s.fail(m, cs, d, "count op=WriteTo", fmt.Sprintf("WriteTo reported %d, the writer accepted %d (buffered %d)", n, len(w.got), before))
				break
			}
			if !check(w.got, "WriteTo") {
				break
			}
			if w.max < 0 && len(w.got) != before {
				s.fail(m, cs, d, "WriteTo did not drain", fmt.Sprintf("WriteTo to an all-accepting writer moved %d of %d buffered bytes", len(w.got), before))
				break
			}
			took = len(w.got)
		case 8:
			opn = "nothing"
		}
		if d.failed {
			break
		}
		if after := c.InboundBuffered(); after != before-took {
			s.fail(m, cs, d, "InboundBuffered not reduced by consumed bytes op="+opn, fmt.Sprintf("%s consumed %d bytes, InboundBuffered went from %d to %d", opn, took, before, after))
			break
		}
		d.consumed += int64(took)
		d.ops++
		s.checkedOps.Add(1)
		s.key(s.c.class() + "|" + opn + "|" + argClass(k, before))
		// occasionally compare the whole readable region with the stream
		if r.Intn(6) == 0 {
			b, err := c.Peek(-1)
			if err != nil || len(b) != c.InboundBuffered() {
				s.fail(m, cs, d, "count op=Peek(-1)", fmt.Sprintf("Peek(-1) returned %d bytes (err %v) with %d buffered", len(b), err, c.InboundBuffered()))
			} else if at := vlib.StreamCheck(d.key, d.consumed, b); at >= 0 {
				s.fail(m, cs, d, "content mismatch op=Peek(-1)", fmt.Sprintf("readable region differs from the peer's stream at stream offset %d (after %s)", d.consumed+int64(at), opn))
			} else {
				s.checkedBytes.Add(int64(len(b)))
			}
		}
	}
	if !d.failed {
		s.conservation(m, cs, d, c, "callback exit")
	}
	return gnet.None
}

func (s *c01Scenario) onClose(m *monitor, cs *connState, c gnet.Conn, err error) gnet.Action {
	d := cs.sc.(*c01Conn)
	if !d.failed {
		s.conservation(m, cs, d, c, "OnClose")
		if b, perr := c.Peek(-1); perr == nil {
			if at := vlib.StreamCheck(d.key, d.consumed, b); at >= 0 {
				s.fail(m, cs, d, "content mismatch op=Peek(-1)@OnClose", fmt.Sprintf("bytes still readable in OnClose differ from the peer's stream at stream offset %d", d.consumed+int64(at)))
			}
		}
	}
	d.offeredAtClose = d.consumed + int64(c.InboundBuffered())
	if mo := d.maxOffered.Load(); mo > d.offeredAtClose {
		d.offeredAtClose = mo
	}
	d.closed.Store(true)
	return gnet.None
}

type c01Peer struct {
	sent    int64 // first: accessed atomically (alignment on 32-bit platforms)
	conn    net.Conn
	key     uint64
	length  int
	segCls  string
	endKind string
	err     error
}

func segSizes(r *vlib.Rand, cls string, total, rcap int) []int {
	var out []int
	left := total
	for left > 0 {
		var n int
		switch cls {
		case "1byte":
			n = 1
		case "2byte":
			n = 2
		case "small":
			n = r.Range(1, 40)
		case "cap-1":
			n = rcap - 1
		case "cap":
			n = rcap
		case "cap+1":
			n = rcap + 1
		case "kcap":
			n = rcap * r.Range(2, 4)
		case "huge":
			n = total
		default: // mixed
			n = r.Pick(1, 2, rcap-1, rcap, rcap+1, 2*rcap, r.Range(1, 3*rcap))
		}
		if n > left {
			n = left
		}
		out = append(out, n)
		left -= n
	}
	return out
}

// runC01Case runs one engine life with npeers connections.
func runC01Case(c cfg, seed uint64, npeers int, keys map[string]struct{}) (evals int64) {
	s := &c01Scenario{c: c, seed: seed, keys: keys}
	var mon *monitor
	mon = newMonitor("c01", hooks{
		onOpen: func(cs *connState, gc gnet.Conn) ([]byte, gnet.Action) {
			if k, ok := cs.userCtx.(uint64); ok {
				cs.key = k
			}
			cs.sc = &c01Conn{rnd: vlib.NewRand(cs.key ^ seed), key: cs.key}
			return nil, gnet.None
		},
		onTraffic: func(cs *connState, gc gnet.Conn) gnet.Action { return s.onTraffic(mon, cs, gc) },
		onClose:   func(cs *connState, gc gnet.Conn, err error) gnet.Action { return s.onClose(mon, cs, gc, err) },
	})
	r := vlib.NewRand(seed)
	// LT mode only (see DESIGN §2.2): shorten read(2) and inject EAGAIN on the connections' sockets
	vsys.PlanClear()
	if vsys.Shimmed && !c.ET && r.Chance(2, 3) {
		vsys.PlanSeed(seed)
		for _, cls := range []string{"accepted", "dup"} {
			vsys.PlanAdd(&vsys.Rule{Call: vsys.CRead, FD: -1, Class: cls, Every: uint64(r.Pick(2, 3, 5)), Action: vsys.AShort, Max: r.Pick(1, 2, 7, 100, c.RCap-1)})
			vsys.PlanAdd(&vsys.Rule{Call: vsys.CRead, FD: -1, Class: cls, Every: uint64(r.Pick(4, 9)), Action: vsys.AEagain})
		}
		res.Obs("c01_cases_with_shortened_reads", 1)
	}
	defer func() {
		res.Obs("c01_shim_perturbations", vsys.NFired())
		vsys.PlanClear()
	}()
	segClasses := []string{"1byte", "2byte", "small", "cap-1", "cap", "cap+1", "kcap", "huge", "mixed"}
	endKinds := []string{"close-with-last", "closewrite", "linger-then-close"}

	var life *engineLife
	var cli *gnet.Client
	var ln net.Listener
	if !c.Client {
		var err error
		life, err = startServer(c, mon)
		if err != nil {
			res.Inconc("c01 %s: engine did not start: %v", c, err)
			return 0
		}
	} else {
		var err error
		cli, err = gnet.NewClient(mon, c.options()...)
		if err != nil {
			res.Inconc("c01 %s: NewClient: %v", c, err)
			return 0
		}
		mon.cli = cli
		if err = cli.Start(); err != nil {
			res.Inconc("c01 %s: Client.Start: %v", c, err)
			return 0
		}
		if c.Net == "unix" {
			ln, err = net.Listen("unix", unixPath("hl"))
		} else if c.Net == "tcp6" {
			ln, err = net.Listen("tcp6", "[::1]:0")
		} else {
			ln, err = net.Listen("tcp", "127.0.0.1:0")
		}
		if err != nil {
			res.Inconc("c01 %s: harness listen: %v", c, err)
			_ = cli.Stop()
			return 0
		}
	}

	peers := make([]*c01Peer, npeers)
	var wg sync.WaitGroup
	var dmu sync.Mutex
	for i := 0; i < npeers; i++ {
		p := &c01Peer{}
		peers[i] = p
		pr := r.Fork()
		p.segCls = segClasses[pr.Intn(len(segClasses))]
		p.endKind = endKinds[pr.Intn(len(endKinds))]
		switch pr.Intn(6) {
		case 0:
			p.length = pr.Pick(0, 1, 2, 3)
		case 1:
			p.length = c.RCap + pr.Pick(-1, 0, 1)
		case 2:
			p.length = pr.Range(1, 2000)
		case 3:
			p.length = pr.Range(1, 10) * c.RCap
		default:
			p.length = pr.Range(1, 200000)
		}
		if p.segCls == "1byte" && p.length > 1500 {
			p.length = pr.Range(1, 1500)
		}
		if p.segCls == "2byte" && p.length > 4000 {
			p.length = pr.Range(1, 4000)
		}
		if p.segCls == "small" && p.length > 30000 {
			p.length = pr.Range(1, 30000)
		}
		wg.Add(1)
		go func(i int, p *c01Peer, pr *vlib.Rand) {
			defer wg.Done()
			var conn net.Conn
			var err error
			if !c.Client {
				conn, err = dialPeer(life.dialNet, life.dialAddr)
				if err != nil {
					p.err = err
					return
				}
				p.key = addrKey(conn.LocalAddr().String())
			} else {
				// one dial/accept pair at a time so that the pairing is known
				dmu.Lock()
				p.key = vlib.Mix(seed ^ uint64(i+1)*0x51ed27)
				acc := make(chan net.Conn, 1)
				go func() {
					a, aerr := ln.Accept()
					if aerr != nil {
						acc <- nil
						return
					}
					acc <- a
				}()
				network := ln.Addr().Network()
				var gc gnet.Conn
				switch pr.Intn(3) {
				case 0:
					gc, err = cli.DialContext(network, ln.Addr().String(), p.key)
				case 1:
					var nc net.Conn
					nc, err = net.Dial(network, ln.Addr().String())
					if err == nil {
						gc, err = cli.EnrollContext(nc, p.key)
					}
				default:
					gc, err = cli.DialContext(network, ln.Addr().String(), p.key)
				}
				_ = gc
				if err != nil {
					dmu.Unlock()
					p.err = err
					return
				}
				conn = <-acc
				dmu.Unlock()
				if conn == nil {
					p.err = errors.New("harness accept failed")
					return
				}
			}
			p.conn = conn
			if tc, ok := conn.(*net.TCPConn); ok {
				_ = tc.SetNoDelay(true)
			}
			buf := make([]byte, p.length)
			vlib.StreamFill(p.key, 0, buf)
			off := 0
			segs := segSizes(pr, p.segCls, p.length, c.RCap)
			for si, n := range segs {
				last := si == len(segs)-1
				_ = conn.SetWriteDeadline(time.Now().Add(20 * time.Second))
				if _, err := conn.Write(buf[off : off+n]); err != nil {
					p.err = err
					break
				}
				off += n
				atomic.StoreInt64(&p.sent, int64(off))
				if !last && pr.Intn(8) == 0 {
					time.Sleep(time.Duration(pr.Intn(300)) * time.Microsecond)
				}
			}
			atomic.StoreInt64(&p.sent, int64(off))
			switch p.endKind {
			case "close-with-last":
				closePeer(conn)
			case "closewrite":
				switch t := conn.(type) {
				case *net.TCPConn:
					_ = t.CloseWrite()
				case *net.UnixConn:
					_ = t.CloseWrite()
				}
			case "linger-then-close":
				// keep the connection open until everything was offered, then close
			}
		}(i, p, pr)
	}
	wg.Wait()

	// wait until every connection's stream has been offered in full
	ok, verdict := waitCond(8*time.Second, func() bool {
		for _, p := range peers {
			if p.err != nil || p.conn == nil {
				continue
			}
			cs := mon.lookupKey(p.key)
			if cs == nil {
				return false
			}
			d, _ := cs.sc.(*c01Conn)
			if d == nil {
				return false
			}
			if p.endKind == "linger-then-close" {
				if !d.closed.Load() && d.maxOffered.Load() < atomic.LoadInt64(&p.sent) {
					return false
				}
			} else if !d.closed.Load() {
				return false
			}
		}
		return true
	})
	for _, p := range peers {
		if p.conn != nil && p.endKind != "close-with-last" {
			closePeer(p.conn)
		}
	}
	if !ok {
		// which connections are behind?
		for _, p := range peers {
			if p.err != nil || p.conn == nil {
				continue
			}
			cs := mon.lookupKey(p.key)
			inq := -1
			if cs != nil {
				if dfd, err := cs.c.Dup(); err == nil {
					vsys.Disown(dfd, "Conn.Dup")
					if v, err := unix.IoctlGetInt(dfd, unix.TIOCINQ); err == nil {
						inq = v
					}
					vsys.ForeignDel(dfd)
					_ = unix.Close(dfd)
				}
			}
			if cs == nil {
				if verdictStuck(verdict) {
					mon.violate("C01 connection never opened cfg="+c.class(), fmt.Sprintf("peer %x connected and sent %d bytes, OnOpen never ran; %s", p.key, p.sent, verdict))
				} else {
					res.Inconc("c01 %s: peer %x never saw OnOpen (%s)", c, p.key, verdict)
				}
				continue
			}
			d := cs.sc.(*c01Conn)
			if d.closed.Load() || d.maxOffered.Load() >= p.sent && p.endKind == "linger-then-close" {
				continue
			}
			if verdictStuck(verdict) {
				mon.violate("C01 stall: sent data not handed to OnTraffic end="+p.endKind+" cfg="+c.class(), fmt.Sprintf("peer %x sent %d bytes (%s, then %s); handler was offered %d; socket still holds %d unread bytes; %s", p.key, p.sent, p.segCls, p.endKind, d.maxOffered.Load(), inq, verdict))
			} else {
				res.Inconc("c01 %s: connection %x not finished (offered %d of %d): %s", c, p.key, d.maxOffered.Load(), p.sent, verdict)
			}
		}
	}
	// wait for the OnClose of every connection (peers are closed now)
	okc, verdict2 := waitCond(8*time.Second, func() bool { return mon.closed.Load() >= mon.opened.Load() })
	if !okc {
		if verdictStuck(verdict2) {
			mon.violate("C04 OnClose missing after peer close cfg="+c.class(), fmt.Sprintf("%d connections opened, %d closed after all peers closed; %s", mon.opened.Load(), mon.closed.Load(), verdict2))
		} else {
			res.Inconc("c01 %s: %d of %d connections closed: %s", c, mon.closed.Load(), mon.opened.Load(), verdict2)
		}
	}
	// verdicts per connection: everything sent before the orderly close was offered
	for _, p := range peers {
		if p.err != nil {
			res.Inconc("c01 %s: peer error: %v", c, p.err)
			continue
		}
		cs := mon.lookupKey(p.key)
		if cs == nil {
			continue
		}
		d := cs.sc.(*c01Conn)
		evals++
		if d.closed.Load() && !d.failed && d.offeredAtClose != p.sent {
			s.fail(mon, cs, d, "bytes sent before orderly close not offered end="+p.endKind, fmt.Sprintf("peer sent %d bytes (%s segments) and closed (%s); handler was offered %d bytes before OnClose (err %v)", p.sent, p.segCls, p.endKind, d.offeredAtClose, cs.closeErr))
		}
		s.key(c.class() + "|stream|" + p.segCls + "|" + p.endKind)
	}
	res.Obs("c01_checked_ops", s.checkedOps.Load())
	res.Obs("c01_checked_bytes", s.checkedBytes.Load())
	res.Obs("c01_connections", int64(npeers))
	// shut the engine down
	if life != nil {
		if err := life.stop(10 * time.Second); err != nil {
			res.Inconc("c01 %s: stop: %v", c, err)
		}
	} else {
		_ = ln.Close()
		if ul, ok := ln.(*net.UnixListener); ok {
			_ = ul
		}
		done := make(chan error, 1)
		go func() { done <- cli.Stop() }()
		select {
		case <-done:
			mon.noteRunReturned(vsys.Seq())
		case <-time.After(10 * time.Second):
			res.Inconc("c01 %s: Client.Stop did not return", c)
		}
	}
	return evals
}

func verdictStuck(v string) bool { return len(v) >= 6 && v[:6] == "stuck:" }
