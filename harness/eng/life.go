//go:build verif

package main

import (
	"context"
	"errors"
	"fmt"
	"io"
	"net"
	"os"
	"strings"
	"sync"
	"sync/atomic"
	"syscall"
	"time"

	"golang.org/x/sys/unix"

	gnet "github.com/panjf2000/gnet/v2"
	errorx "github.com/panjf2000/gnet/v2/pkg/errors"
	"github.com/panjf2000/gnet/v2/pkg/vsys"
	"github.com/panjf2000/gnet/v2/zzverif/vlib"
)

// ---- C04 / C06 / C07: connection life cycles, shutdown, descriptor ownership -------------

var lifePlans = []string{
	"peerFIN", "peerRST", "peerHalf", "backpressure", "dupHeld", "loopCloseInOpen", "actOpen", "actTraffic", "connClose", "closeCB", "loopClose", "loopCloseMore",
	"loopCloseOther", "writeFail", "shutdown", "raceFINClose", "raceActRST", "quiet", "stale", "openReplyClose",
}

type lifeConn struct {
	plan              string
	key               uint64
	k                 int32 // act at the k-th OnTraffic
	traffic           atomic.Int32
	cbRuns            atomic.Int32 // CloseWithCallback callback invocations
	lateErrs          atomic.Int32 // async writes after close that completed with an error
	lateOK            atomic.Int32 // async writes after close that completed WITHOUT an error
	lateCBs           atomic.Int32
	unexpectedTraffic atomic.Int32
	wakes             atomic.Int32 // accepted Wake requests on the open connection
	wakeTraffic       atomic.Int32
	closedInCallback  atomic.Bool
	victim            atomic.Bool  // closed by another connection's callback (loopCloseOther)
	backlog           atomic.Int32 // async-backlog shutdown: 1 = seed the backlog in the next callback, 3 = return Shutdown in the next callback
	dupFds            []int
}

type lifeScenario struct {
	c             cfg
	seed          uint64
	mon           *monitor
	keys          map[string]struct{}
	kmu           sync.Mutex
	byLoop        sync.Map // loop idx -> *sync.Map of tok->*connState (open connections per loop)
	shutdownFrom  string   // which callback returns Shutdown ("" = none)
	shutdownArmed atomic.Bool
	shutdownFired atomic.Bool
	backlogMode   bool
	triggerVia    string   // how the connection whose OnClose asks for shutdown gets closed
	src, moment   string   // the case's shutdown source and moment (for witnesses)
	preArmed      sync.Map // peer key -> struct{}: bystander connections the harness itself closes at once
	tickShutdown  atomic.Bool
}

func (s *lifeScenario) key(k string) {
	s.kmu.Lock()
	s.keys[k] = struct{}{}
	s.kmu.Unlock()
}

func planFor(key, seed uint64, allowed []string) string {
	return allowed[int(vlib.Mix(key^seed*0x9e37)%uint64(len(allowed)))]
}

func (s *lifeScenario) allowedPlans() []string {
	var out []string
	for _, p := range lifePlans {
		if (p == "peerRST" || p == "raceActRST") && s.c.Net == "unix" {
			continue // unix sockets have no RST
		}
		out = append(out, p)
	}
	return out
}

func (s *lifeScenario) loopSet(idx int) *sync.Map {
	v, _ := s.byLoop.LoadOrStore(idx, &sync.Map{})
	return v.(*sync.Map)
}

func (s *lifeScenario) onOpen(cs *connState, c gnet.Conn) ([]byte, gnet.Action) {
	d := &lifeConn{key: cs.key, plan: planFor(cs.key, s.seed, s.allowedPlans())}
	if strings.HasPrefix(cs.local, "/") && (d.plan == "peerRST" || d.plan == "raceActRST") {
		d.plan = "peerFIN" // accepted on a unix listener of a Rotate engine
	}
	d.k = int32(1 + vlib.Mix(cs.key)%2)
	cs.sc = d
	if s.shutdownArmed.Load() {
		cs.armedLocal.Store(true) // opened while shutdown is under way: it will be closed by the engine
	}
	if _, ok := s.preArmed.Load(cs.key); ok {
		cs.armedLocal.Store(true)
		cs.armedRemote.Store(true)
		d.plan = "quiet"
		if s.shutdownFrom == "OnClose" && !s.backlogMode && s.shutdownArmed.Load() {
			// the connection provoked by the trigger: its OnClose returns Shutdown, whichever way the close comes about
			switch s.triggerVia {
			case "writeFail":
				d.plan = "writeFail"
			case "action":
				d.plan, d.k = "actTraffic", 1
			case "loopClose":
				d.plan, d.k = "loopClose", 1
			}
		}
	}
	s.loopSet(cs.loopIdx).Store(cs.tok, cs)
	if s.shutdownFrom == "OnOpen" && s.shutdownArmed.Load() && !s.shutdownFired.Swap(true) {
		s.armAll()
		return nil, gnet.Shutdown
	}
	switch d.plan {
	case "loopCloseInOpen":
		// a close requested while OnOpen is still running must be carried out: exactly one OnClose, nested here
		cs.armedLocal.Store(true)
		err := c.EventLoop().Close(c)
		if errors.Is(err, errorx.ErrEngineShutdown) {
			return nil, gnet.Shutdown
		}
		if n := atomic.LoadInt32(&cs.closes); n != 1 {
			s.mon.violate("C04 EventLoop.Close inside OnOpen did not deliver OnClose", fmt.Sprintf("connection %d: EventLoop.Close(c) from OnOpen returned %v and OnClose ran %d times", cs.tok, err, n))
		}
		s.key(s.c.class() + "|close-inside-OnOpen")
		return nil, gnet.None
	case "actOpen":
		cs.armedLocal.Store(true)
		return nil, gnet.Close
	case "openReplyClose":
		cs.armedLocal.Store(true)
		return []byte("bye"), gnet.Close
	}
	return []byte("hi"), gnet.None
}

func (s *lifeScenario) armAll() {
	for _, cs := range s.mon.snapshot() {
		cs.armedLocal.Store(true)
	}
}

func (s *lifeScenario) onTraffic(cs *connState, c gnet.Conn) gnet.Action {
	d := cs.sc.(*lifeConn)
	n := d.traffic.Add(1)
	buf, _ := c.Next(-1)
	isWake := len(buf) == 0
	if isWake {
		d.wakeTraffic.Add(1)
	}
	switch d.backlog.Load() {
	case 1:
		// more than 1024 high-priority requests pending on this loop: the low-priority request issued next (Wake or
		// Close) has to travel through the low-priority queue, and the Shutdown its callback returns must still count
		d.backlog.Store(2)
		for k := 0; k < 1100; k++ {
			_ = c.AsyncWrite([]byte("q"), nil)
		}
		if s.shutdownFrom == "OnClose" {
			cs.armedLocal.Store(true)
			_ = c.Close()
		} else {
			d.backlog.Store(3)
			_ = c.Wake(nil)
		}
		s.key(s.c.class() + "|shutdown-through-low-priority-queue|" + s.shutdownFrom)
		return gnet.None
	case 3:
		d.backlog.Store(4)
		s.shutdownFired.Store(true)
		s.armAll()
		return gnet.Shutdown
	}
	if s.shutdownFrom == "OnTraffic" && !s.backlogMode && s.shutdownArmed.Load() && !s.shutdownFired.Swap(true) {
		s.armAll()
		return gnet.Shutdown
	}
	switch d.plan {
	case "quiet", "stale", "shutdown", "connClose", "closeCB":
		if !isWake && len(buf) > 0 && string(buf) != "x" {
			// these connections carry at most the single setup byte
		}
	case "actTraffic", "raceActRST":
		if n >= d.k {
			cs.armedLocal.Store(true)
			return gnet.Close
		}
	case "loopClose", "loopCloseMore":
		if n >= d.k && !d.closedInCallback.Swap(true) {
			cs.armedLocal.Store(true)
			err := c.EventLoop().Close(c)
			if errors.Is(err, errorx.ErrEngineShutdown) {
				// OnClose returned Shutdown: EventLoop.Close hands the action to its caller, who passes it on
				return gnet.Shutdown
			}
			if err != nil {
				s.mon.violate("C04 EventLoop.Close failed on an open connection", fmt.Sprintf("connection %d: %v", cs.tok, err))
			}
			if atomic.LoadInt32(&cs.closes) != 1 {
				s.mon.violate("C04 EventLoop.Close did not deliver OnClose", fmt.Sprintf("connection %d: %d OnClose after EventLoop.Close inside OnTraffic", cs.tok, atomic.LoadInt32(&cs.closes)))
			}
		}
	case "loopCloseOther":
		if n >= d.k && !d.closedInCallback.Swap(true) {
			// close another open connection of the same loop from inside this callback
			var victim *connState
			s.loopSet(cs.loopIdx).Range(func(k, v any) bool {
				o := v.(*connState)
				if o != cs && atomic.LoadInt32(&o.state) == 1 {
					if od, ok := o.sc.(*lifeConn); ok && od.plan == "quiet" {
						victim = o
						return false
					}
				}
				return true
			})
			if victim != nil {
				victim.armedLocal.Store(true)
				victim.sc.(*lifeConn).victim.Store(true)
				before := atomic.LoadInt32(&victim.closes)
				if err := c.EventLoop().Close(victim.c); errors.Is(err, errorx.ErrEngineShutdown) {
					return gnet.Shutdown
				}
				if atomic.LoadInt32(&victim.closes) != before+1 {
					s.mon.violate("C04 EventLoop.Close did not deliver OnClose", fmt.Sprintf("closing connection %d from a callback of connection %d on the same loop delivered %d OnClose", victim.tok, cs.tok, atomic.LoadInt32(&victim.closes)-before))
				}
				s.key(s.c.class() + "|loopCloseOther-executed")
			}
		}
	case "dupHeld":
		if n == 1 {
			// the application keeps a duplicate of the descriptor beyond the life of the connection
			if fd, err := c.Dup(); err == nil {
				vsys.Disown(fd, "Conn.Dup")
				d.dupFds = append(d.dupFds, fd)
			}
			cs.armedLocal.Store(true)
			return gnet.Close
		}
	case "backpressure":
		if n == 1 {
			// the peer does not read: most of this stays in the outbound buffer until the connection ends
			_, _ = c.Write(make([]byte, 3<<20))
		}
	case "writeFail":
		if n >= 1 && !d.closedInCallback.Load() {
			// the peer resets right after sending; give the RST time to arrive, then write twice
			time.Sleep(3 * time.Millisecond)
			cs.armedRemote.Store(true)
			big := make([]byte, 256*1024)
			for i := 0; i < 3 && atomic.LoadInt32(&cs.closes) == 0; i++ {
				_, err := c.Write(big)
				if err != nil {
					d.closedInCallback.Store(true)
					break
				}
			}
		}
	}
	return gnet.None
}

func (s *lifeScenario) onClose(cs *connState, c gnet.Conn, err error) gnet.Action {
	d := cs.sc.(*lifeConn)
	s.loopSet(cs.loopIdx).Delete(cs.tok)
	local, remote := cs.armedLocal.Load(), cs.armedRemote.Load()
	switch {
	case err == nil && !local:
		s.mon.violate("C04 OnClose(nil) without a local close request plan="+d.plan, fmt.Sprintf("connection %d (plan %s): OnClose reported a nil error but nothing local asked for the close (remote cause armed: %v); case: shutdown source %q at %q, requested %v, fired %v, faults fired %d, Run returned %v, OnShutdown ran %d times; last system calls: %v", cs.tok, d.plan, remote, s.src, s.moment, s.shutdownArmed.Load(), s.shutdownFired.Load(), vsys.NFired(), s.mon.runReturned.Load() != 0, s.mon.shutdowns.Load(), vsys.LogTail(12)))
	case err != nil && !remote:
		s.mon.violate("C04 OnClose(err) without a peer or I/O cause plan="+d.plan, fmt.Sprintf("connection %d (plan %s): OnClose(%v) but no peer close/reset/I-O failure was provoked (local request armed: %v)", cs.tok, d.plan, err, local))
	}
	// a second close cause inside OnClose itself: EventLoop.Close on the connection being closed must be a
	// no-op, and a Write (the framework flushes what OnClose writes) must not start another close
	switch vlib.Mix(cs.key^0xc105e) % 4 {
	case 0:
		if cerr := c.EventLoop().Close(c); cerr != nil {
			s.mon.violate("C04 EventLoop.Close inside OnClose returned an error", fmt.Sprintf("connection %d: %v", cs.tok, cerr))
		}
		s.key(s.c.class() + "|onclose-reentrant-close")
	case 1:
		_, _ = c.Write([]byte("last words"))
		_, _ = c.Write(make([]byte, 128*1024))
		s.key(s.c.class() + "|onclose-write|" + map[bool]string{true: "nil", false: "err"}[err == nil])
	}
	s.key(s.c.class() + "|close|" + d.plan + "|" + map[bool]string{true: "nil", false: "err"}[err == nil])
	if s.backlogMode && d.backlog.Load() < 2 && !s.shutdownFired.Load() {
		return gnet.None // async-backlog: only the connection closed through the low-priority queue asks for shutdown
	}
	if s.shutdownFrom == "OnClose" && s.shutdownArmed.Load() {
		// every OnClose asks for shutdown from now on, also those delivered by the shutdown sweep itself
		if !s.shutdownFired.Swap(true) {
			s.armAll()
		}
		return gnet.Shutdown
	}
	return gnet.None
}

type lifePeer struct {
	conn   net.Conn
	key    uint64
	plan   string
	err    error
	cs     *connState
	gotEOF atomic.Bool
}

// canary keeps opening and closing descriptors so that numbers the framework closed are reused at once.
type canary struct {
	stop    chan struct{}
	wg      sync.WaitGroup
	damaged atomic.Int32
	cycles  atomic.Int64
	detail  atomic.Value
}

func startCanaries(n int) *canary {
	cn := &canary{stop: make(chan struct{})}
	for i := 0; i < n; i++ {
		cn.wg.Add(1)
		go func(i int) {
			defer cn.wg.Done()
			for {
				select {
				case <-cn.stop:
					return
				default:
				}
				var p [2]int
				if err := unix.Pipe2(p[:], unix.O_CLOEXEC|unix.O_NONBLOCK); err != nil {
					time.Sleep(time.Millisecond)
					continue
				}
				vsys.ForeignAdd(p[0], "canary-pipe-r")
				vsys.ForeignAdd(p[1], "canary-pipe-w")
				var st0, st1 unix.Stat_t
				_ = unix.Fstat(p[0], &st0)
				_ = unix.Fstat(p[1], &st1)
				msg := []byte(fmt.Sprintf("canary-%d-%d", i, cn.cycles.Add(1)))
				_, _ = unix.Write(p[1], msg)
				time.Sleep(time.Duration(50+i*37) * time.Microsecond)
				// still the same objects, content untouched?
				var a0, a1 unix.Stat_t
				e0, e1 := unix.Fstat(p[0], &a0), unix.Fstat(p[1], &a1)
				if e0 != nil || e1 != nil || a0.Ino != st0.Ino || a1.Ino != st1.Ino {
					cn.damaged.Add(1)
					cn.detail.Store(fmt.Sprintf("canary pipe (%d,%d) is no longer the object it opened: fstat %v %v", p[0], p[1], e0, e1))
				} else {
					got := make([]byte, 64)
					n, err := unix.Read(p[0], got)
					if err != nil || string(got[:n]) != string(msg) {
						cn.damaged.Add(1)
						cn.detail.Store(fmt.Sprintf("canary pipe (%d,%d) content changed: read (%d,%v) %q, wrote %q", p[0], p[1], n, err, got[:max0(n)], msg))
					}
				}
				vsys.ForeignDel(p[0])
				vsys.ForeignDel(p[1])
				_ = unix.Close(p[0])
				_ = unix.Close(p[1])
			}
		}(i)
	}
	return cn
}

func max0(n int) int {
	if n < 0 {
		return 0
	}
	return n
}

func (cn *canary) finish() (damaged int32, detail string) {
	close(cn.stop)
	cn.wg.Wait()
	if v := cn.detail.Load(); v != nil {
		detail = v.(string)
	}
	return cn.damaged.Load(), detail
}

var triggerVias = []string{"fin", "writeFail", "action", "loopClose", "connClose"}

type lifeOpts struct {
	npeers       int
	canaries     int
	shutdownFrom string // Engine.Stop, Stop, OnOpen, OnTraffic, OnClose, OnTick, Client.Stop
	moment       string // idle, connect-storm, traffic, async-pending
	ticker       bool
	via          string // shutdownFrom OnClose: how the connection whose OnClose asks for shutdown gets closed
}

// runLifeCase runs one engine life with a mix of close causes and all end-of-life checks.
func runLifeCase(c cfg, seed uint64, o lifeOpts, keys map[string]struct{}) (evals int64) {
	r := vlib.NewRand(seed)
	s := &lifeScenario{c: c, seed: seed, keys: keys, src: o.shutdownFrom, moment: o.moment}
	s.backlogMode = o.moment == "async-backlog" && (o.shutdownFrom == "OnTraffic" || o.shutdownFrom == "OnClose")
	s.triggerVia = triggerVias[vlib.Mix(seed^0x7719)%uint64(len(triggerVias))]
	if o.via != "" {
		s.triggerVia = o.via
	}
	if o.shutdownFrom == "OnOpen" || o.shutdownFrom == "OnTraffic" || o.shutdownFrom == "OnClose" || o.shutdownFrom == "OnTick" {
		s.shutdownFrom = o.shutdownFrom
	}
	c.Ticker = o.ticker || o.shutdownFrom == "OnTick"
	mon := newMonitor("life", hooks{
		onOpen:    s.onOpen,
		onTraffic: s.onTraffic,
		onClose:   s.onClose,
		afterPublish: func(cs *connState) {
			// the shutdown request arms every connection snapshot() returns; a connection whose OnOpen was in progress then
			// (checked the flag before it was set, published after the snapshot) is armed here - the flag only goes up
			if s.shutdownArmed.Load() {
				cs.armedLocal.Store(true)
			}
		},
		onTick: func() (time.Duration, gnet.Action) {
			if s.shutdownFrom == "OnTick" && s.shutdownArmed.Load() && !s.shutdownFired.Swap(true) {
				s.armAll()
				return time.Millisecond, gnet.Shutdown
			}
			return 2 * time.Millisecond, gnet.None
		},
	})
	s.mon = mon
	if c.Ticker {
		mon.slowTick = time.Duration(r.Intn(3000)) * time.Microsecond
	}
	vsys.ResetAlarms()
	vsys.ResetLedger()
	vsys.PlanClear()
	defer vsys.PlanClear()
	// warm the Go runtime's own descriptors, then snapshot the table
	if l, err := net.Listen("tcp", "127.0.0.1:0"); err == nil {
		_ = l.Close()
	}
	before := fdTable()
	life, err := startServer(c, mon)
	if err != nil {
		res.Inconc("life %s: engine did not start: %v", c, err)
		return 0
	}
	var cn *canary
	if o.canaries > 0 {
		cn = startCanaries(o.canaries)
	}
	allowed := s.allowedPlans()
	peers := make([]*lifePeer, o.npeers)
	var wg sync.WaitGroup
	var stale []*connState
	var staleMu sync.Mutex
	stormStop := make(chan struct{})
	for i := 0; i < o.npeers; i++ {
		p := &lifePeer{}
		peers[i] = p
		wg.Add(1)
		go func(i int, p *lifePeer, pr *vlib.Rand) {
			defer wg.Done()
			dn, da := life.dialNet, life.dialAddr
			if life.dial2Addr != "" && i%2 == 1 {
				dn, da = life.dial2Net, life.dial2Addr // the second listener (Rotate)
			}
			conn, err := dialPeer(dn, da)
			if err != nil {
				p.err = err
				return
			}
			p.conn = conn
			p.key = addrKey(conn.LocalAddr().String())
			p.plan = planFor(p.key, seed, allowed)
			if dn == "unix" && (p.plan == "peerRST" || p.plan == "raceActRST") {
				p.plan = "peerFIN" // no RST on unix sockets (the server side computes the same substitution)
			}
			// wait for OnOpen
			for k := 0; k < 4000 && p.cs == nil; k++ {
				if p.cs = mon.lookupKey(p.key); p.cs == nil {
					time.Sleep(500 * time.Microsecond)
				}
			}
			if p.cs == nil {
				if o.shutdownFrom != "" && s.shutdownFired.Load() {
					return // accepted during shutdown: may legitimately never open
				}
				p.err = errors.New("OnOpen not seen")
				return
			}
			cs := p.cs
			d := cs.sc.(*lifeConn)
			send := func(b string) {
				_ = conn.SetWriteDeadline(time.Now().Add(5 * time.Second))
				_, _ = conn.Write([]byte(b))
			}
			greeting := func() {
				_ = conn.SetReadDeadline(time.Now().Add(5 * time.Second))
				var g [2]byte
				_, _ = io.ReadFull(conn, g[:])
			}
			// sendUntilClosed keeps sending one byte until the server has closed the connection
			sendUntilClosed := func(b string) {
				var one [8]byte
				for k := 0; k < 400; k++ {
					_ = conn.SetWriteDeadline(time.Now().Add(time.Second))
					if _, err := conn.Write([]byte(b)); err != nil {
						return
					}
					_ = conn.SetReadDeadline(time.Now().Add(500 * time.Microsecond))
					if _, err := conn.Read(one[:]); err != nil && !errors.Is(err, os.ErrDeadlineExceeded) {
						if errors.Is(err, io.EOF) {
							p.gotEOF.Store(true)
						}
						return
					}
				}
			}
			if p.plan != "actOpen" && p.plan != "openReplyClose" && p.plan != "loopCloseInOpen" {
				greeting()
			}
			drain := func(timeout time.Duration) {
				deadline := time.Now().Add(timeout)
				var b [512]byte
				for time.Now().Before(deadline) {
					_ = conn.SetReadDeadline(time.Now().Add(100 * time.Millisecond))
					_, err := conn.Read(b[:])
					if err == nil {
						continue
					}
					if errors.Is(err, io.EOF) {
						p.gotEOF.Store(true)
						return
					}
					if !errors.Is(err, os.ErrDeadlineExceeded) {
						return
					}
					select {
					case <-life.done: // the engine is gone: a socket it never closed would keep us here for nothing
						return
					default:
					}
				}
			}
			switch p.plan {
			case "peerFIN":
				send("hello")
				time.Sleep(time.Duration(pr.Intn(2000)) * time.Microsecond)
				cs.armedRemote.Store(true)
				closePeer(conn)
			case "peerRST":
				send("hello")
				time.Sleep(time.Duration(pr.Intn(2000)) * time.Microsecond)
				cs.armedRemote.Store(true)
				setLinger0(conn)
				closePeer(conn)
			case "peerHalf":
				send("half")
				cs.armedRemote.Store(true)
				switch t := conn.(type) {
				case *net.TCPConn:
					_ = t.CloseWrite()
				case *net.UnixConn:
					_ = t.CloseWrite()
				}
				drain(5 * time.Second)
				closePeer(conn)
			case "actOpen", "openReplyClose", "loopCloseInOpen":
				drain(5 * time.Second)
				closePeer(conn)
			case "actTraffic":
				sendUntilClosed("m")
				closePeer(conn)
			case "connClose":
				cs.armedLocal.Store(true)
				if err := cs.c.Close(); err != nil {
					mon.violate("C04 Close rejected on an open connection", fmt.Sprint(err))
				}
				drain(5 * time.Second)
				closePeer(conn)
			case "closeCB":
				cs.armedLocal.Store(true)
				err := cs.c.CloseWithCallback(func(gc gnet.Conn, e error) error {
					mon.inCallback(gc, "CloseWithCallback-callback", func() { d.cbRuns.Add(1) })
					return nil
				})
				if err != nil {
					mon.violate("C04 CloseWithCallback rejected on an open connection", fmt.Sprint(err))
				}
				drain(5 * time.Second)
				closePeer(conn)
				if ok, _ := waitCond(5*time.Second, func() bool { return d.cbRuns.Load() >= 1 }); ok {
					time.Sleep(time.Millisecond)
				}
				if n := d.cbRuns.Load(); n != 1 && !s.shutdownArmed.Load() { // only while the engine keeps running
					mon.violate("C03 CloseWithCallback callback not invoked exactly once", fmt.Sprintf("connection %d: callback ran %d times", cs.tok, n))
				}
			case "loopClose":
				sendUntilClosed("c")
				closePeer(conn)
			case "loopCloseMore":
				// keep data coming so that the read loop has more to do after the close inside the callback
				send(strings.Repeat("z", 3*c.RCap+17))
				send("tail")
				drain(5 * time.Second)
				closePeer(conn)
			case "loopCloseOther":
				for k := 0; k < 3; k++ {
					send("o")
					time.Sleep(500 * time.Microsecond)
				}
				time.Sleep(2 * time.Millisecond)
				cs.armedRemote.Store(true)
				closePeer(conn)
			case "writeFail":
				send("w")
				cs.armedRemote.Store(true)
				setLinger0(conn)
				closePeer(conn)
			case "raceFINClose":
				cs.armedLocal.Store(true)
				cs.armedRemote.Store(true)
				go func() { _ = cs.c.Close() }()
				closePeer(conn)
			case "raceActRST":
				cs.armedRemote.Store(true)
				send("mmm")
				setLinger0(conn)
				closePeer(conn)
			case "dupHeld":
				send("d")
				// the connection is closed by the handler, the duplicate keeps the socket alive: keep talking to it
				ok, _ := waitCond(3*time.Second, func() bool { return atomic.LoadInt32(&cs.state) == 2 })
				if ok {
					for k := 0; k < 5; k++ {
						send("more-data-for-the-duplicate")
						time.Sleep(300 * time.Microsecond)
					}
					for _, fd := range d.dupFds {
						// the duplicate is the application's: it must still be open, the same socket, and readable
						buf := make([]byte, 256)
						_ = unix.SetNonblock(fd, true)
						n, err := unix.Read(fd, buf)
						if err != nil || n <= 0 {
							mon.violate("C07 descriptor handed to the user (Conn.Dup) is unusable after the connection closed", fmt.Sprintf("read on the duplicate fd %d: (%d,%v)", fd, n, err))
						}
						vsys.ForeignDel(fd)
						_ = unix.Close(fd)
					}
					s.key(c.class() + "|dup-held-across-close")
				}
			case "backpressure":
				send("b") // the handler answers with 3 MiB which this peer never reads; it stays open until the engine ends
			case "quiet", "shutdown":
				// stays open and silent until the end of the case
				if pr.Intn(3) == 0 { // a Wake on an open idle connection = exactly one OnTraffic
					if err := cs.c.Wake(nil); err == nil {
						d.wakes.Add(1)
					}
				}
			case "stale":
				send("s")
				time.Sleep(500 * time.Microsecond)
				cs.armedRemote.Store(true)
				closePeer(conn)
				staleMu.Lock()
				stale = append(stale, cs)
				staleMu.Unlock()
			}
		}(i, p, r.Fork())
		if o.moment == "connect-storm" && i%8 == 7 {
			time.Sleep(200 * time.Microsecond)
		}
	}
	// the request for shutdown may come while the above is still going on
	var regLn net.Listener
	var regPeers []net.Conn
	var extraMu sync.Mutex
	defer func() {
		if regLn != nil {
			_ = regLn.Close()
		}
		extraMu.Lock()
		for _, ac := range regPeers {
			_ = ac.Close()
		}
		extraMu.Unlock()
	}()
	var backlogPeer net.Conn
	defer func() {
		if backlogPeer != nil {
			closePeer(backlogPeer)
		}
	}()
	trigger := func() {
		s.shutdownArmed.Store(true)
		switch o.shutdownFrom {
		case "Engine.Stop", "":
		case "OnTraffic", "OnClose", "OnOpen":
			if s.backlogMode {
				// the request that leads to the Shutdown-returning callback is issued while > 1024 asynchronous writes
				// are pending on the same loop
				pick := func() bool {
					for _, cs := range mon.snapshot() {
						if d, ok := cs.sc.(*lifeConn); ok && atomic.LoadInt32(&cs.state) == 1 && (d.plan == "quiet" || d.plan == "shutdown" || d.plan == "backpressure") {
							d.backlog.Store(1)
							if cs.c.Wake(nil) == nil {
								return true
							}
						}
					}
					return false
				}
				if !pick() {
					// no idle connection is left open: bring one (the peer stays open until the end of the case)
					if conn, err := dialPeerPre(life.dialNet, life.dialAddr, &s.preArmed); err == nil {
						key := addrKey(conn.LocalAddr().String())
						waitCond(3*time.Second, func() bool { return mon.lookupKey(key) != nil })
						backlogPeer = conn
						if !pick() {
							res.Inconc("life %s: no connection available to request the shutdown through the low-priority queue", c)
						}
					}
				}
				break
			}
			if o.shutdownFrom == "OnOpen" && o.via == "register" {
				// the connection whose OnOpen returns Shutdown is not accepted but brought in through Engine.Register:
				// the action must count all the same
				if ln, err := net.Listen("tcp", "127.0.0.1:0"); err == nil {
					go func() {
						for {
							ac, err := ln.Accept()
							if err != nil {
								return
							}
							extraMu.Lock()
							regPeers = append(regPeers, ac)
							extraMu.Unlock()
						}
					}()
					regLn = ln
					// OnBoot comes before the loops are registered: until then Register reports the empty-engine error
					waitCondQuick(3*time.Second, func() bool { return gnet.VerifNumLoops(life.eng) == c.Loops })
					for k := 0; k < 40 && !s.shutdownFired.Load(); k++ {
						ch, err := life.eng.Register(gnet.NewNetAddrContext(context.Background(), ln.Addr()))
						if err != nil {
							time.Sleep(20 * time.Millisecond) // not accepted: nothing was requested yet
							continue
						}
						select {
						case <-ch:
						case <-time.After(2 * time.Second):
						}
					}
					if !s.shutdownFired.Load() {
						res.Inconc("life %s: no registered connection reached OnOpen, shutdown was never requested", c)
						s.armAll()
						go func() { _ = life.stop(10 * time.Second) }()
					}
					s.key(c.class() + "|shutdown-from-OnOpen-of-a-registered-connection")
				}
				break
			}
			// provoke the callback that will return Shutdown
			for k := 0; k < 200 && !s.shutdownFired.Load(); k++ {
				if conn, err := dialPeerPre(life.dialNet, life.dialAddr, &s.preArmed); err == nil {
					key := addrKey(conn.LocalAddr().String())
					_, _ = conn.Write([]byte("t"))
					if s.triggerVia == "writeFail" {
						setLinger0(conn) // the handler's Write fails: the close (and its Shutdown) comes out of conn.write
					} else {
						time.Sleep(2 * time.Millisecond)
					}
					if cs := mon.lookupKey(key); cs != nil {
						cs.armedRemote.Store(true)
						cs.armedLocal.Store(true)
						if s.triggerVia == "connClose" {
							_ = cs.c.Close()
							waitCond(time.Second, func() bool { return atomic.LoadInt32(&cs.state) == 2 })
						}
					}
					closePeer(conn)
					s.key(c.class() + "|shutdown-from-OnClose-via|" + s.triggerVia)
				}
				time.Sleep(time.Millisecond)
			}
		}
	}
	if o.moment == "connect-storm" || o.moment == "traffic" {
		time.Sleep(time.Duration(r.Intn(3000)) * time.Microsecond)
	} else {
		wg.Wait()
	}
	// stale handles: late requests on connections that are already closed, while numbers are reused
	staleMu.Lock()
	st := append([]*connState(nil), stale...)
	staleMu.Unlock()
	var lateWG sync.WaitGroup
	var lateWakes []*atomic.Int32
	for _, cs := range st {
		if ok, _ := waitCond(3*time.Second, func() bool { return atomic.LoadInt32(&cs.state) == 2 }); !ok {
			continue
		}
		d := cs.sc.(*lifeConn)
		// reuse the number
		var fresh []net.Conn
		for k := 0; k < 3; k++ {
			if nc, err := dialPeerPre(life.dialNet, life.dialAddr, &s.preArmed); err == nil {
				fresh = append(fresh, nc)
			}
		}
		time.Sleep(time.Millisecond)
		for k := 0; k < 3; k++ {
			lateWG.Add(1)
			err := cs.c.AsyncWrite([]byte("late"), func(gc gnet.Conn, e error) error {
				d.lateCBs.Add(1)
				if e != nil {
					d.lateErrs.Add(1)
				} else {
					d.lateOK.Add(1)
				}
				lateWG.Done()
				return nil
			})
			if err != nil {
				lateWG.Done()
			}
			// a Wake that is accepted (nil error) has its callback invoked exactly once, open connection or not
			wruns := new(atomic.Int32)
			if werr := cs.c.Wake(func(gnet.Conn, error) error { wruns.Add(1); return nil }); werr == nil {
				lateWakes = append(lateWakes, wruns)
			}
			_ = cs.c.Close()
		}
		done := make(chan struct{})
		go func() { lateWG.Wait(); close(done) }()
		select {
		case <-done:
		case <-time.After(5 * time.Second):
		}
		if ok, v := waitCond(3*time.Second, func() bool {
			for _, w := range lateWakes {
				if w.Load() == 0 {
					return false
				}
			}
			return true
		}); !ok && verdictStuck(v) && !s.shutdownArmed.Load() {
			mon.violate("C03 Wake callback of an accepted request never invoked", fmt.Sprintf("connection %d was closed (seq %d); Wake(callback) returned nil afterwards but its callback has not run and the loops are idle: %s", cs.tok, cs.closeSeq, v))
			break // one witness per engine life is enough (each costs a watchdog interval)
		}
		for _, w := range lateWakes {
			if w.Load() > 1 {
				mon.violate("C03 Wake callback invoked more than once", fmt.Sprintf("connection %d: %d times", cs.tok, w.Load()))
			}
		}
		lateWakes = lateWakes[:0]
		if d.lateOK.Load() > 0 {
			mon.violate("C04 asynchronous write on a closed connection completed without error", fmt.Sprintf("connection %d was closed (seq %d); %d late AsyncWrite callbacks got a nil error", cs.tok, cs.closeSeq, d.lateOK.Load()))
		}
		s.key(c.class() + "|stale-handle-requests")
		// the fresh connections that may have reused the number must be untouched
		time.Sleep(2 * time.Millisecond)
		for _, nc := range fresh {
			k := addrKey(nc.LocalAddr().String())
			if fcs := mon.lookupKey(k); fcs != nil {
				// a request on the stale handle can only reach another connection through the reused descriptor number
				if fd, _ := fcs.sc.(*lifeConn); atomic.LoadInt32(&fcs.closes) != 0 && fcs.fd == cs.fd && fd != nil && !fd.victim.Load() && fcs.closeErr == nil && !s.shutdownArmed.Load() {
					mon.violate("C04 request on a stale connection acted on another connection", fmt.Sprintf("fresh connection %d (fd %d) was closed although only stale connection %d (fd %d) was asked to close", fcs.tok, fcs.fd, cs.tok, cs.fd))
				}
				fcs.armedRemote.Store(true)
			}
			closePeer(nc)
		}
	}
	if o.moment != "connect-storm" && o.moment != "traffic" {
		// EventLoop.Execute: every accepted runnable runs exactly once, on the goroutine of the loop it was given to
		type exRec struct {
			runs atomic.Int32
			gid  atomic.Int64
		}
		var recs []*exRec
		var loopsSeen []gnet.EventLoop
		seenLoop := map[gnet.EventLoop]bool{}
		for _, cs := range mon.snapshot() {
			if atomic.LoadInt32(&cs.state) == 1 && !seenLoop[cs.loop] {
				seenLoop[cs.loop] = true
				loopsSeen = append(loopsSeen, cs.loop)
			}
		}
		accepted := 0
		for _, lp := range loopsSeen {
			for k := 0; k < 16; k++ {
				rec := &exRec{}
				lp := lp
				err := lp.Execute(context.Background(), gnet.RunnableFunc(func(ctx context.Context) error {
					rec.runs.Add(1)
					rec.gid.Store(vlib.GoID())
					if g, ok := mon.loopG.Load(lp); ok && g.(int64) != vlib.GoID() {
						mon.violate("C05 Execute runnable ran off its loop's goroutine", fmt.Sprintf("loop goroutine %d, runnable on %d", g.(int64), vlib.GoID()))
					}
					return nil
				}))
				if err == nil {
					recs = append(recs, rec)
					accepted++
				}
			}
		}
		if accepted > 0 {
			ok, v := waitCond(4*time.Second, func() bool {
				for _, rc := range recs {
					if rc.runs.Load() < 1 {
						return false
					}
				}
				return true
			})
			time.Sleep(time.Millisecond)
			for _, rc := range recs {
				if n := rc.runs.Load(); n > 1 || (n == 0 && verdictStuck(v)) {
					mon.violate("C03 Execute runnable not run exactly once", fmt.Sprintf("a runnable accepted by EventLoop.Execute ran %d times (%s)", n, v))
					break
				}
			}
			if !ok && !verdictStuck(v) {
				res.Inconc("life %s: Execute runnables pending: %s", c, v)
			}
			res.Obs("execute_runnables_checked", int64(accepted))
			s.key(c.class() + "|execute-exactly-once")
		}
		// quiescent point: CountConnections == opened - closed
		if ok, _ := waitCond(3*time.Second, func() bool {
			return int64(life.eng.CountConnections()) == mon.opened.Load()-mon.closed.Load()
		}); !ok {
			// re-evaluate strictly with nothing in flight: all peers idle now
			time.Sleep(20 * time.Millisecond)
			oc := mon.opened.Load() - mon.closed.Load()
			if got := int64(life.eng.CountConnections()); got != oc {
				mon.violate("C04 CountConnections differs from opened minus closed at a quiescent point", fmt.Sprintf("CountConnections()=%d, %d opened - %d closed = %d", got, mon.opened.Load(), mon.closed.Load(), oc))
			}
		}
		// quiescent point: every socket the framework accepted is either registered with a poller or closed again -
		// a socket that is neither here can never be served (at shutdown the same state is the listed accept0 finding,
		// which is why it is looked for before any shutdown is requested)
		if vsys.Shimmed {
			limbo := func() (out []vsys.FDInfo) {
				for _, fi := range vsys.Owned() {
					if fi.Class == "accepted" && !fi.Registered && fdIdent(fi.FD) != "" {
						out = append(out, fi)
					}
				}
				return
			}
			if ok, v := waitCond(3*time.Second, func() bool { return len(limbo()) == 0 }); !ok {
				if l := limbo(); len(l) > 0 && verdictStuck(v) {
					mon.violate("C07 accepted descriptor neither registered nor closed while the engine is idle", fmt.Sprintf("config %s: descriptor %d (accepted in %s) was never added to a poller and is still open; %s", c, l[0].FD, l[0].Site, v))
				} else if len(l) > 0 {
					res.Inconc("life %s: %d accepted descriptors not registered yet: %s", c, len(l), v)
				}
			}
			s.key(c.class() + "|no-accepted-socket-in-limbo-before-shutdown")
		}
	}
	// ---- shutdown
	trigger()
	stopErrCh := make(chan error, 1)
	var extra []net.Conn
	if backlogPeer != nil {
		extra, backlogPeer = append(extra, backlogPeer), nil // closed with the other peers, before the descriptor table is compared
	}
	t0 := time.Now()
	switch o.shutdownFrom {
	case "accept-error":
		// a non-retryable accept4 failure shuts the engine down by design; every open connection must still be closed
		s.armAll()
		nopen := int64(0)
		for _, cs := range mon.snapshot() {
			if atomic.LoadInt32(&cs.state) == 1 {
				nopen++
			}
		}
		res.Obs("accept_error_open_connections_at_fault|"+c.class(), nopen)
		vsys.PlanAdd(&vsys.Rule{Call: vsys.CAccept, FD: -1, Index: 1, Action: vsys.AErrno, Errno: unix.EMFILE, Once: true})
		if conn, err := dialPeerPre(life.dialNet, life.dialAddr, &s.preArmed); err == nil {
			extra = append(extra, conn)
		}
		stopErrCh <- nil
	case "Engine.Stop", "":
		s.armAll()
		go func() {
			ctx, cancel := context.WithTimeout(context.Background(), 20*time.Second)
			defer cancel()
			stopErrCh <- life.eng.Stop(ctx)
		}()
	case "Stop":
		s.armAll()
		go func() {
			ctx, cancel := context.WithTimeout(context.Background(), 20*time.Second)
			defer cancel()
			err := gnet.Stop(ctx, life.addr)
			// the engine is entered into the package's table only after its start has completed (OnBoot comes earlier):
			// a package-level Stop in that window is refused with the in-shutdown error, i.e. nothing was requested yet
			for k := 0; k < 400 && errors.Is(err, errorx.ErrEngineInShutdown) && !life.waitDone(time.Millisecond); k++ {
				s.key(c.class() + "|package-Stop-refused-before-start-completed")
				time.Sleep(5 * time.Millisecond)
				err = gnet.Stop(ctx, life.addr)
			}
			stopErrCh <- err
		}()
	default:
		stopErrCh <- nil
	}
	close(stormStop)
	returned := life.waitDone(15 * time.Second)
	res.ObsMax("max:ms_from_shutdown_request_to_Run_return|"+o.shutdownFrom+"|"+o.moment, time.Since(t0).Milliseconds())
	if !returned {
		// bounded: two identical goroutine dumps => deadlock
		d1 := vlib.NormalizeDump(vlib.GoroutineDump())
		cb1, calls1, bytes1 := mon.callbacks.Load(), shimCalls(), shimBytes()
		time.Sleep(2 * time.Second)
		d2 := vlib.NormalizeDump(vlib.GoroutineDump())
		cb2, calls2, bytes2 := mon.callbacks.Load(), shimCalls(), shimBytes()
		if !life.waitDone(time.Millisecond) {
			if d1 == d2 {
				res.Violate("C06 Run did not return after shutdown request source="+o.shutdownFrom+" moment="+o.moment, fmt.Sprintf("config %s: Run has not returned %.1fs after shutdown was requested and two goroutine dumps 2s apart are identical (deadlock)", c, time.Since(t0).Seconds()),
					map[string]any{"config": c.String(), "events": mon.tail(40), "dump": trimDump(d2)})
			} else if stuck, desc := loopsStuck(); stuck && !life.waitDone(time.Millisecond) {
				// every event loop sits in the same blocking epoll_wait: nothing will ever carry the shutdown out
				res.Violate("C06 Run did not return after shutdown request (loops idle) source="+o.shutdownFrom+" moment="+o.moment, fmt.Sprintf("config %s: shutdown was requested %.1fs ago (source %s), Run has not returned and %s", c, time.Since(t0).Seconds(), o.shutdownFrom, desc),
					map[string]any{"config": c.String(), "events": mon.tail(40)})
				res.Finish()
			} else if vsys.Shimmed && cb1 == cb2 && bytes1 == bytes2 && calls2-calls1 > 20000 {
				// livelock: the framework keeps issuing system calls (all failing or empty) while no callback runs and not a
				// single byte moves - a state that cannot end by itself
				res.Violate("C06 Run did not return after shutdown request (livelock) source="+o.shutdownFrom, fmt.Sprintf("config %s: Run has not returned %.1fs after shutdown was requested; within 2s the framework made %d system calls without running a callback or moving a byte: %v", c, time.Since(t0).Seconds(), calls2-calls1, vsys.LogTail(6)),
					map[string]any{"config": c.String(), "events": mon.tail(40), "shim_log": vsys.LogTail(30)})
				res.Finish() // the spinning engine would distort every later case of this process
			} else {
				res.Inconc("life %s: Run not returned after %.1fs (source %s), goroutines still moving", c, time.Since(t0).Seconds(), o.shutdownFrom)
				// diagnosis aid: what the framework's goroutines are doing
				var fw []string
				for _, g := range strings.Split(d2, "\n\n") {
					if strings.Contains(g, "panjf2000/gnet/v2.") && !strings.Contains(g, "zzverif/eng.") || strings.Contains(g, "gnet/v2.Run") || strings.Contains(g, "gnet/v2.(*engine)") {
						fw = append(fw, g)
					}
				}
				res.Note("life %s: framework goroutines while Run does not return (fired faults %d, shutdownFired %v, events %v): %s", c, vsys.NFired(), s.shutdownFired.Load(), mon.tail(6), trimDump(strings.Join(fw, "\n--\n")))
			}
			wg.Wait()
			for _, p := range peers {
				if p.conn != nil {
					if p.cs != nil {
						p.cs.armedRemote.Store(true)
					}
					closePeer(p.conn)
				}
			}
			return 0
		}
	}
	var stopErr error
	select {
	case stopErr = <-stopErrCh:
	case <-time.After(3 * time.Second):
		stopErr = errors.New("Stop call did not return although Run returned")
	}
	if life.runErr != nil && o.shutdownFrom != "accept-error" {
		mon.violate("C06 Run returned an error after graceful shutdown source="+o.shutdownFrom, fmt.Sprintf("Run returned %v", life.runErr))
	}
	if stopErr != nil {
		mon.violate("C06 Stop returned an error source="+o.shutdownFrom, fmt.Sprintf("%v", stopErr))
	}
	wg.Wait()
	for _, p := range peers {
		if p.conn != nil {
			closePeer(p.conn)
		}
	}
	for _, ec := range extra {
		closePeer(ec)
	}
	if regLn != nil {
		_ = regLn.Close()
		time.Sleep(time.Millisecond)
		extraMu.Lock()
		for _, ac := range regPeers {
			_ = ac.Close()
		}
		regPeers = nil
		extraMu.Unlock()
	}
	// grace interval: nothing of this engine may run any more
	for k := 0; k < 3; k++ {
		vlib.Catch(func() {
			for _, p := range peers {
				if p.cs != nil {
					_ = p.cs.c.Wake(nil)
				}
			}
		})
		time.Sleep(3 * time.Millisecond)
	}
	if n := mon.shutdowns.Load(); n != 1 {
		mon.violate("C06 OnShutdown not invoked exactly once", fmt.Sprintf("OnShutdown ran %d times (source %s)", n, o.shutdownFrom))
	}
	mon.lifecycleSummary(life.retSeq)
	life.checkKeptDup()
	if life.dial2Net == "unix" || strings.HasPrefix(c.Net, "unix") {
		for _, pth := range []string{life.dialAddr, life.dial2Addr} {
			if strings.HasPrefix(pth, "/") {
				if _, err := os.Stat(pth); err == nil {
					res.Violate("C07 unix socket file not removed", fmt.Sprintf("%s still exists after Run returned", pth), nil)
				}
			}
		}
	}
	// Wake on open idle connections: exactly one OnTraffic each
	for _, p := range peers {
		if p.cs == nil {
			continue
		}
		d := p.cs.sc.(*lifeConn)
		if (p.plan == "quiet" || p.plan == "shutdown") && d.wakes.Load() > 0 && o.shutdownFrom == "Engine.Stop" && o.moment == "idle" && !d.victim.Load() {
			if got := d.wakeTraffic.Load(); got != d.wakes.Load() {
				mon.violate("C03 Wake on an open connection did not produce exactly one OnTraffic", fmt.Sprintf("connection %d: %d Wake requests accepted, %d OnTraffic invocations caused by them", p.cs.tok, d.wakes.Load(), got))
			}
		}
		if p.err != nil {
			res.Inconc("life %s: peer: %v", c, p.err)
		} else {
			evals++
		}
	}
	// ---- C07: descriptor ownership
	if cn != nil {
		if dmg, detail := cn.finish(); dmg > 0 {
			res.Violate("C07 foreign descriptor damaged", detail, map[string]any{"config": c.String(), "events": mon.tail(30)})
		}
		res.Obs("c07_canary_cycles", cn.cycles.Load())
	}
	for _, a := range vsys.Alarms() {
		sig := fmt.Sprintf("C07 %s op=%s site=%s", a.Kind, a.Op, a.Site)
		res.Violate(sig, fmt.Sprintf("config %s: %s on fd %d at %s: %s", c, a.Kind, a.FD, a.Site, a.Detail), map[string]any{"config": c.String(), "events": mon.tail(30), "shim_log": vsys.LogTail(60)})
	}
	var reclaim []int
	for _, fi := range vsys.Owned() {
		if fi.Class == "adopted" {
			continue
		}
		if fdIdent(fi.FD) == "" {
			continue // already gone through a path the shim does not see
		}
		sig := fmt.Sprintf("C07 leak class=%s site=%s registered=%v", fi.Class, fi.Site, fi.Registered)
		res.Violate(sig, fmt.Sprintf("config %s: descriptor %d (%s, created in %s, ever registered in epoll: %v) is still open after Run returned: %s", c, fi.FD, fi.Class, fi.Site, fi.Registered, fdIdent(fi.FD)), map[string]any{"config": c.String(), "source": o.shutdownFrom, "moment": o.moment})
		reclaim = append(reclaim, fi.FD)
	}
	after := fdTable()
	defer func() {
		for _, fd := range reclaim { // reported above; reclaimed so that long runs do not exhaust the descriptor table
			_ = unix.Close(fd)
		}
	}()
	for fd, id := range after {
		if b, ok := before[fd]; ok && b == id {
			continue
		}
		if strings.HasPrefix(id, "socket:") || strings.Contains(id, "eventpoll") || strings.Contains(id, "eventfd") {
			// could belong to a harness peer that is still closing; peers are closed above, so re-check once
			time.Sleep(5 * time.Millisecond)
			if fdIdent(fd) != id {
				continue
			}
			if !vsys.Shimmed {
				// plain build (strace job): leaks are decided by the shim flavour, whose ledger names the creation site;
				// without it a generic "socket left open" could not be told from the listed accept0 leak
				res.Obs("plain_flavour_descriptors_left_open", 1)
				continue
			}
			if fi, known := vsys.Info(fd); !(known && fi.State == 1) { // owned ones were reported by the ledger above
				res.Violate("C07 descriptor left open after Run returned kind="+kindOf(id), fmt.Sprintf("config %s: fd %d -> %s was not open before the engine started and is still open after Run returned", c, fd, id), map[string]any{"config": c.String()})
			}
		}
	}
	if strings.HasPrefix(c.Net, "unix") {
		if _, err := os.Stat(life.dialAddr); err == nil {
			res.Violate("C07 unix socket file not removed", fmt.Sprintf("%s still exists after Run returned", life.dialAddr), nil)
		}
	}
	s.key(c.class() + "|shutdown|" + o.shutdownFrom + "|" + o.moment)
	res.Obs("life_connections", int64(o.npeers))
	res.Obs("life_opened", mon.opened.Load())
	res.Obs("life_closed", mon.closed.Load())
	res.ObsMax("max:callback_nesting_depth", int64(mon.maxDepth.Load()))
	res.Obs("callbacks_attributed", mon.callbacks.Load())
	return evals
}

func kindOf(id string) string {
	switch {
	case strings.HasPrefix(id, "socket:"):
		return "socket"
	case strings.Contains(id, "eventpoll"):
		return "epoll"
	case strings.Contains(id, "eventfd"):
		return "eventfd"
	}
	return "other"
}

func trimDump(d string) string {
	if len(d) > 6000 {
		return d[:6000]
	}
	return d
}

// dialPeerPre dials a bystander connection that the harness itself will close: its key is pre-armed so that
// the close is expected whenever OnOpen happens to run. For TCP the local port must be known before the
// connect, so the socket is bound explicitly first.
func dialPeerPre(network, addr string, pre *sync.Map) (net.Conn, error) {
	if network == "unix" {
		lp := unixPath("peer")
		pre.Store(addrKey(lp), struct{}{})
		d := net.Dialer{Timeout: 5 * time.Second, LocalAddr: &net.UnixAddr{Name: lp, Net: "unix"}}
		return d.Dial(network, addr)
	}
	// reserve a local port: bind a socket to port 0, read the port, connect from it
	host := "127.0.0.1"
	if network == "tcp6" {
		host = "[::1]"
	}
	for try := 0; try < 20; try++ {
		l, err := net.Listen(network, host+":0")
		if err != nil {
			return nil, err
		}
		la := l.Addr().(*net.TCPAddr)
		_ = l.Close()
		pre.Store(addrKey(la.String()), struct{}{})
		d := net.Dialer{Timeout: 5 * time.Second, LocalAddr: la, Control: func(_, _ string, rc syscall.RawConn) error {
			return rc.Control(func(fd uintptr) { _ = unix.SetsockoptInt(int(fd), unix.SOL_SOCKET, unix.SO_REUSEADDR, 1) })
		}}
		c, err := d.Dial(network, addr)
		if err == nil {
			return c, nil
		}
	}
	return nil, errors.New("dialPeerPre: could not connect from a reserved port")
}

func shimCalls() (n int64) {
	for i := range vsys.Calls {
		n += vsys.Calls[i].Load()
	}
	return
}

func shimBytes() (n int64) {
	for _, fi := range vsys.Owned() {
		n += fi.Rd + fi.Wr
	}
	return
}
