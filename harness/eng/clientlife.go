//go:build verif

package main

import (
	"fmt"
	"net"
	"strings"
	"sync"
	"sync/atomic"
	"time"

	"golang.org/x/sys/unix"

	gnet "github.com/panjf2000/gnet/v2"
	"github.com/panjf2000/gnet/v2/pkg/vsys"
	"github.com/panjf2000/gnet/v2/zzverif/vlib"
)

// ---- client engines: Dial / Enroll, connected UDP sockets, Client.Stop as the shutdown source --------

func runClientLifeCase(c cfg, seed uint64, nconn int, stopTwice, cbShutdown bool, keys map[string]struct{}) (evals int64) {
	r := vlib.NewRand(seed)
	var mon *monitor
	var trafficUDP, trafficTCP atomic.Int64
	var shutdownArmed, shutdownFired atomic.Bool
	mon = newMonitor("clientlife", hooks{
		onOpen: func(cs *connState, gc gnet.Conn) ([]byte, gnet.Action) {
			return nil, gnet.None
		},
		onTraffic: func(cs *connState, gc gnet.Conn) gnet.Action {
			b, _ := gc.Next(-1)
			if shutdownArmed.Load() && !shutdownFired.Swap(true) {
				// a client callback asks for shutdown; the application calls Client.Stop afterwards as usual
				return gnet.Shutdown
			}
			if gc.LocalAddr() != nil && gc.LocalAddr().Network() == "udp" {
				trafficUDP.Add(1)
				_, _ = gc.Write(b) // echo the datagram to the connected peer
			} else {
				trafficTCP.Add(1)
				_, _ = gc.Write(b)
			}
			return gnet.None
		},
		onClose: func(cs *connState, gc gnet.Conn, err error) gnet.Action {
			local, remote := cs.armedLocal.Load(), cs.armedRemote.Load()
			if err == nil && !local {
				mon.violate("C04 OnClose(nil) without a local close request plan=client", fmt.Sprintf("client connection %d", cs.tok))
			}
			if err != nil && !remote {
				mon.violate("C04 OnClose(err) without a peer or I/O cause plan=client", fmt.Sprintf("client connection %d: %v", cs.tok, err))
			}
			return gnet.None
		},
	})
	vsys.ResetAlarms()
	vsys.ResetLedger()
	vsys.PlanClear()
	c.Client = true
	c.Ticker = r.Bool()
	if c.Ticker {
		mon.slowTick = time.Duration(r.Intn(2000)) * time.Microsecond
	}
	cli, err := gnet.NewClient(mon, c.options()...)
	if err != nil {
		res.Inconc("clientlife: NewClient: %v", err)
		return 0
	}
	mon.cli = cli
	if err := cli.Start(); err != nil {
		res.Inconc("clientlife: Start: %v", err)
		return 0
	}
	// harness-side servers
	var ln net.Listener
	switch c.Net {
	case "unix":
		ln, err = net.Listen("unix", unixPath("hl"))
	case "tcp6":
		ln, err = net.Listen("tcp6", "[::1]:0")
	default:
		ln, err = net.Listen("tcp", "127.0.0.1:0")
	}
	if err != nil {
		res.Inconc("clientlife: listen: %v", err)
		_ = cli.Stop()
		return 0
	}
	udpSrv, _ := net.ListenUDP("udp", &net.UDPAddr{IP: net.IPv4(127, 0, 0, 1)})
	var accepted []net.Conn
	var amu sync.Mutex
	go func() {
		for {
			a, err := ln.Accept()
			if err != nil {
				return
			}
			amu.Lock()
			accepted = append(accepted, a)
			amu.Unlock()
			go func(a net.Conn) { // echo peer: sends a little, reads the echo
				buf := make([]byte, 4096)
				for i := 0; i < 3; i++ {
					_ = a.SetDeadline(time.Now().Add(2 * time.Second))
					if _, err := a.Write([]byte("ping")); err != nil {
						return
					}
					if _, err := a.Read(buf); err != nil {
						return
					}
				}
			}(a)
		}
	}()
	var conns []gnet.Conn
	var udpConns []gnet.Conn
	for i := 0; i < nconn; i++ {
		key := vlib.Mix(seed ^ uint64(i+1)*0x5bd1e995)
		var gc gnet.Conn
		switch r.Intn(4) {
		case 0:
			if udpSrv != nil {
				gc, err = cli.DialContext("udp", udpSrv.LocalAddr().String(), key)
				if err == nil {
					udpConns = append(udpConns, gc)
				}
				keys["client|dial|udp"] = struct{}{}
				break
			}
			fallthrough
		case 1:
			var nc net.Conn
			nc, err = net.Dial(ln.Addr().Network(), ln.Addr().String())
			if err == nil {
				gc, err = cli.EnrollContext(nc, key)
			}
			keys["client|enroll|"+c.Net] = struct{}{}
		default:
			gc, err = cli.DialContext(ln.Addr().Network(), ln.Addr().String(), key)
			keys["client|dial|"+c.Net] = struct{}{}
		}
		if err != nil {
			res.Inconc("clientlife: dial/enroll: %v", err)
			continue
		}
		if _, ok := mon.openedConns.Load(gc); !ok {
			mon.violate("C03 Dial/Enroll returned a connection whose OnOpen has not run", fmt.Sprintf("connection #%d", i))
		}
		conns = append(conns, gc)
		evals++
	}
	// datagrams to the connected UDP sockets: one OnTraffic each, echo comes back
	if udpSrv != nil && len(udpConns) > 0 {
		for _, uc := range udpConns {
			var la *net.UDPAddr
			if cs := mon.stateOf(uc); cs != nil {
				la, _ = net.ResolveUDPAddr("udp", cs.local)
			}
			if la == nil {
				continue
			}
			for k := 0; k < 3; k++ {
				_, _ = udpSrv.WriteToUDP([]byte(fmt.Sprintf("dgram-%d", k)), la)
			}
		}
		want := int64(3 * len(udpConns))
		ok, v := waitCond(3*time.Second, func() bool { return trafficUDP.Load() >= want })
		if !ok && !verdictStuck(v) {
			res.Inconc("clientlife: udp traffic %d of %d: %s", trafficUDP.Load(), want, v)
		}
		time.Sleep(2 * time.Millisecond)
		if got := trafficUDP.Load(); got > want {
			mon.violate("C08 connected UDP socket: more OnTraffic than datagrams", fmt.Sprintf("%d datagrams sent, %d OnTraffic", want, got))
		}
		keys["client|udp|datagrams"] = struct{}{}
		// an empty datagram from the peer: if the framework takes it as the end of the connection, that close is
		// peer-induced, so OnClose must carry an error (checked in onClose: only the remote cause is armed)
		if uc := udpConns[0]; uc != nil {
			if cs := mon.stateOf(uc); cs != nil {
				cs.armedRemote.Store(true)
				la, _ := net.ResolveUDPAddr("udp", cs.local)
				_, _ = udpSrv.WriteToUDP([]byte{}, la)
				if ok, _ := waitCondQuick(500*time.Millisecond, func() bool { return atomic.LoadInt32(&cs.state) == 2 }); ok {
					keys["client|udp|empty-datagram-closes-the-connection"] = struct{}{}
				} else {
					keys["client|udp|empty-datagram-delivered-or-ignored"] = struct{}{}
				}
			}
		}
	}
	time.Sleep(time.Duration(r.Intn(5)) * time.Millisecond)
	// close a third of the connections explicitly (local cause), a third from the peer side
	for i, gc := range conns {
		cs := mon.stateOf(gc)
		switch i % 3 {
		case 0:
			if cs != nil {
				cs.armedLocal.Store(true)
			}
			_ = gc.Close()
		}
	}
	amu.Lock()
	for i, a := range accepted {
		if i%3 == 1 {
			// which gnet connection is this? arm all still open ones for a remote cause: the peer closes now
			for _, cs := range mon.snapshot() {
				cs.armedRemote.Store(true)
			}
			_ = a.Close()
		}
	}
	amu.Unlock()
	time.Sleep(3 * time.Millisecond)
	// Client.Stop = the shutdown request
	for _, cs := range mon.snapshot() {
		cs.armedLocal.Store(true)
		cs.armedRemote.Store(true)
	}
	if cbShutdown {
		shutdownArmed.Store(true)
		for _, gc := range conns {
			if cs := mon.stateOf(gc); cs != nil && atomic.LoadInt32(&cs.state) == 1 {
				if gc.Wake(nil) == nil {
					break
				}
			}
		}
		waitCondQuick(2*time.Second, func() bool { return shutdownFired.Load() })
		time.Sleep(time.Duration(r.Intn(3000)) * time.Microsecond)
		if shutdownFired.Load() {
			keys["client|shutdown-action-from-callback-then-Client.Stop"] = struct{}{}
		}
	}
	stopDone := make(chan error, 1)
	go func() { stopDone <- cli.Stop() }()
	select {
	case err := <-stopDone:
		ret := vsys.Seq()
		mon.noteRunReturned(ret)
		if err != nil {
			mon.violate("C06 Client.Stop returned an error", fmt.Sprint(err))
		}
		mon.lifecycleSummary(ret)
	case <-time.After(15 * time.Second):
		d1 := vlib.NormalizeDump(vlib.GoroutineDump())
		time.Sleep(2 * time.Second)
		d2 := vlib.NormalizeDump(vlib.GoroutineDump())
		if d1 == d2 {
			res.Violate("C06 Client.Stop did not return", "two goroutine dumps 2s apart are identical", map[string]any{"config": c.String(), "dump": trimDump(d2)})
		} else {
			res.Inconc("clientlife: Client.Stop not returned after 17s")
		}
		return evals
	}
	if n := mon.shutdowns.Load(); n != 1 {
		mon.violate("C06 OnShutdown not invoked exactly once", fmt.Sprintf("client engine: OnShutdown ran %d times", n))
	}
	_ = ln.Close()
	if udpSrv != nil {
		_ = udpSrv.Close()
	}
	amu.Lock()
	for _, a := range accepted {
		_ = a.Close()
	}
	amu.Unlock()
	// late requests on the stopped client's connections must have no effect
	for _, gc := range conns {
		_ = gc.Wake(nil)
		_ = gc.Close()
	}
	time.Sleep(3 * time.Millisecond)
	for _, a := range vsys.Alarms() {
		res.Violate(fmt.Sprintf("C07 %s op=%s site=%s", a.Kind, a.Op, a.Site), fmt.Sprintf("client engine %s: %s on fd %d: %s", c, a.Kind, a.FD, a.Detail), map[string]any{"config": c.String(), "shim_log": vsys.LogTail(40)})
	}
	for _, fi := range vsys.Owned() {
		if fi.Class == "adopted" || fdIdent(fi.FD) == "" {
			continue
		}
		res.Violate(fmt.Sprintf("C07 leak class=%s site=%s registered=%v", fi.Class, fi.Site, fi.Registered), fmt.Sprintf("client engine %s: descriptor %d (%s, created in %s) still open after Client.Stop returned", c, fi.FD, fi.Class, fi.Site), map[string]any{"config": c.String()})
		_ = unix.Close(fi.FD) // reported; reclaimed
	}
	if stopTwice {
		// a second Stop must be harmless: descriptors opened by others meanwhile on the freed numbers stay untouched
		vsys.ResetAlarms()
		cn := startCanaries(4)
		time.Sleep(2 * time.Millisecond)
		done2 := make(chan struct{})
		go func() { vlib.Catch(func() { _ = cli.Stop() }); close(done2) }()
		select {
		case <-done2:
		case <-time.After(10 * time.Second):
			res.Inconc("clientlife: second Client.Stop did not return")
		}
		time.Sleep(2 * time.Millisecond)
		if dmg, detail := cn.finish(); dmg > 0 {
			res.Violate("C07 foreign descriptor damaged", "second Client.Stop: "+detail, map[string]any{"config": c.String()})
		}
		for _, a := range vsys.Alarms() {
			res.Violate(fmt.Sprintf("C07 %s op=%s site=%s history=second-Client.Stop", a.Kind, a.Op, a.Site), fmt.Sprintf("second Client.Stop on %s: %s on fd %d: %s", c, a.Kind, a.FD, a.Detail), map[string]any{"config": c.String()})
		}
		keys["client|stop-twice"] = struct{}{}
	}
	keys["client|stop|"+c.class()] = struct{}{}
	res.Obs("client_connections", int64(len(conns)))
	return evals
}

// runStartFailCase: a descriptor-creating call fails while the engine (or client) starts. Run/Start must report the
// error, every descriptor created so far must be closed exactly once, and no descriptor of anybody else - in
// particular 0, 1, 2 - may be touched.
func runStartFailCase(c cfg, seed uint64, call int, k int64, client bool, keys map[string]struct{}) (reached bool) {
	mon := newMonitor("startfail", hooks{})
	vsys.ResetAlarms()
	vsys.ResetLedger()
	vsys.PlanClear()
	defer vsys.PlanClear()
	for fd := 0; fd <= 2; fd++ {
		vsys.ForeignAdd(fd, "stdio")
	}
	defer func() {
		for fd := 0; fd <= 2; fd++ {
			vsys.ForeignDel(fd)
		}
	}()
	vsys.PlanAdd(&vsys.Rule{Call: call, FD: -1, Index: k, Action: vsys.AErrno, Errno: unix.EMFILE, Once: true})
	done := make(chan error, 1)
	var cli *gnet.Client
	go func() {
		if client {
			var err error
			cli, err = gnet.NewClient(mon, c.options()...)
			if err == nil {
				err = cli.Start()
			}
			done <- err
			return
		}
		done <- gnet.Run(mon, c.listenAddr(), c.options()...)
	}()
	what := "Run"
	if client {
		what = "Client.Start"
	}
	var err error
	select {
	case err = <-done:
	case <-time.After(3 * time.Second):
		if vsys.NFired() == 0 {
			// the k-th call was never made: the engine is simply running; stop it
			if client && cli != nil {
				_ = cli.Stop()
			} else if mon.life == nil {
				// Run is serving: find the engine through OnBoot is not wired here; use the package-level Stop
			}
			res.Note("startfail: %s did not reach %s #%d", what, vsys.CallName(call), k)
			// leave the engine to the process end; it holds no harness resources
			return false
		}
		res.Violate("C19 "+what+" hangs after a failed "+vsys.CallName(call), fmt.Sprintf("%s #%d failed with EMFILE during start and %s has not returned 3s later", vsys.CallName(call), k, what), map[string]any{"config": c.String(), "dump": trimDump(vlib.NormalizeDump(vlib.GoroutineDump()))})
		return true
	}
	if vsys.NFired() == 0 {
		// started fine without making that call: shut down again
		if client && cli != nil {
			_ = cli.Stop()
		}
		return false
	}
	if err == nil {
		res.Violate("C19 "+what+" reported success although "+vsys.CallName(call)+" failed", fmt.Sprintf("%s #%d failed with EMFILE during start", vsys.CallName(call), k), map[string]any{"config": c.String()})
		if client && cli != nil {
			_ = cli.Stop()
		}
	}
	time.Sleep(2 * time.Millisecond)
	for _, a := range vsys.Alarms() {
		res.Violate(fmt.Sprintf("C07 %s op=%s site=%s history=failed-start", a.Kind, a.Op, a.Site), fmt.Sprintf("%s with %s #%d failing (EMFILE): %s on fd %d: %s", what, vsys.CallName(call), k, a.Kind, a.FD, a.Detail), map[string]any{"config": c.String(), "shim_log": vsys.LogTail(30)})
	}
	for _, fi := range vsys.Owned() {
		if fi.Class == "adopted" || fdIdent(fi.FD) == "" {
			continue
		}
		res.Violate(fmt.Sprintf("C07 leak class=%s site=%s history=failed-start", fi.Class, fi.Site), fmt.Sprintf("%s failed (%s #%d EMFILE) but descriptor %d (%s, created in %s) is still open", what, vsys.CallName(call), k, fi.FD, fi.Class, fi.Site), map[string]any{"config": c.String()})
		_ = unix.Close(fi.FD) // reported; reclaimed
	}
	keys[fmt.Sprintf("failed-start|%s|%s|k=%d", what, vsys.CallName(call), k)] = struct{}{}
	return true
}

// runStartBusyCase: a listener cannot be bound because the address is in use (the socket exists by then). Run /
// Rotate must report the error and close everything created so far, including listeners bound before the busy one.
func runStartBusyCase(kind string, keys map[string]struct{}) (ran bool) {
	mon := newMonitor("startbusy", hooks{})
	vsys.ResetAlarms()
	vsys.ResetLedger()
	vsys.PlanClear()
	probeTCP := func(network, host string) (net.Listener, string) {
		l, err := net.Listen(network, net.JoinHostPort(host, "0"))
		if err != nil {
			return nil, ""
		}
		return l, l.Addr().String()
	}
	var holdL net.Listener
	var holdP net.PacketConn
	var addrs []string
	c := cfg{Loops: 2, Net: "tcp", RCap: 1024, WCap: 1024}
	switch kind {
	case "tcp", "tcp-reuseport", "rotate-second-busy":
		l, a := probeTCP("tcp4", "127.0.0.1")
		if l == nil {
			return false
		}
		holdL = l
		addrs = []string{"tcp://" + a}
		c.ReusePort = kind == "tcp-reuseport"
		if kind == "rotate-second-busy" {
			free := cfg{Net: "tcp"}.listenAddr()
			addrs = []string{free, "tcp://" + a}
		}
	case "tcp6":
		l, a := probeTCP("tcp6", "::1")
		if l == nil {
			return false
		}
		holdL = l
		addrs = []string{"tcp6://" + a}
	case "udp":
		pc, err := net.ListenPacket("udp4", "127.0.0.1:0")
		if err != nil {
			return false
		}
		holdP = pc
		addrs = []string{"udp://" + pc.LocalAddr().String()}
		c.Net = "udp"
	}
	defer func() {
		if holdL != nil {
			_ = holdL.Close()
		}
		if holdP != nil {
			_ = holdP.Close()
		}
	}()
	before := fdTable()
	done := make(chan error, 1)
	go func() {
		if len(addrs) > 1 {
			done <- gnet.Rotate(mon, addrs, c.options()...)
		} else {
			done <- gnet.Run(mon, addrs[0], c.options()...)
		}
	}()
	var err error
	select {
	case err = <-done:
	case <-time.After(5 * time.Second):
		res.Violate("C19 Run hangs although a listen address is in use kind="+kind, fmt.Sprintf("addresses %v: Run/Rotate has not returned 5s after it was called", addrs), map[string]any{"dump": trimDump(vlib.NormalizeDump(vlib.GoroutineDump()))})
		return true
	}
	if err == nil {
		res.Violate("C19 Run reported success although a listen address is in use kind="+kind, fmt.Sprintf("addresses %v", addrs), nil)
		return true
	}
	time.Sleep(2 * time.Millisecond)
	for _, a := range vsys.Alarms() {
		res.Violate(fmt.Sprintf("C07 %s op=%s site=%s history=failed-start", a.Kind, a.Op, a.Site), fmt.Sprintf("Run on a busy address (%s): %s on fd %d: %s", kind, a.Kind, a.FD, a.Detail), map[string]any{"shim_log": vsys.LogTail(30)})
	}
	for _, fi := range vsys.Owned() {
		if fi.Class == "adopted" || fdIdent(fi.FD) == "" {
			continue
		}
		res.Violate(fmt.Sprintf("C07 leak class=%s site=%s history=failed-start", fi.Class, fi.Site), fmt.Sprintf("Run failed (%v) because the address is in use (%s) but descriptor %d (%s, created in %s) is still open", err, kind, fi.FD, fi.Class, fi.Site), nil)
		_ = unix.Close(fi.FD) // reported; reclaimed
	}
	// independent of the ledger: the process's descriptor table is what it was
	for fd, id := range fdTable() {
		if b, ok := before[fd]; ok && b == id {
			continue
		}
		if strings.HasPrefix(id, "socket:") || strings.Contains(id, "eventpoll") || strings.Contains(id, "eventfd") {
			time.Sleep(5 * time.Millisecond)
			if fdIdent(fd) != id {
				continue
			}
			if fi, known := vsys.Info(fd); known && fi.State == 1 {
				continue // reported above with its creation site
			}
			res.Violate("C07 descriptor left open after a failed start kind="+kindOf(id), fmt.Sprintf("Run failed (%v) on a busy address (%s); fd %d -> %s was not open before and is still open", err, kind, fd, id), nil)
		}
	}
	keys["failed-start|address-in-use|"+kind] = struct{}{}
	return true
}
