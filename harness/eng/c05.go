//go:build verif

package main

import (
	"context"
	"fmt"
	"net"
	"sync"
	"sync/atomic"
	"time"

	"golang.org/x/sys/unix"

	gnet "github.com/panjf2000/gnet/v2"
	"github.com/panjf2000/gnet/v2/pkg/vsys"
	"github.com/panjf2000/gnet/v2/zzverif/vlib"
)

// ---- C05: hostile use of the concurrency-safe API (race detector) + confinement ----------

type c05Stats struct {
	calls sync.Map // name -> *atomic.Int64
}

func (st *c05Stats) inc(name string) {
	v, ok := st.calls.Load(name)
	if !ok {
		v, _ = st.calls.LoadOrStore(name, new(atomic.Int64))
	}
	v.(*atomic.Int64).Add(1)
}

// runC05Case: one engine life under API fire from many goroutines.
func runC05Case(c cfg, seed uint64, dur time.Duration, ngor int, bootCaller bool, keys map[string]struct{}) int64 {
	r := vlib.NewRand(seed)
	st := &c05Stats{}
	var live sync.Map // tok -> gnet.Conn (includes recently closed ones on purpose)
	var bootWG sync.WaitGroup
	stopBoot := make(chan struct{})
	var mon *monitor
	execRuns := new(atomic.Int64)
	mon = newMonitor("c05", hooks{
		onBoot: func(e gnet.Engine) gnet.Action {
			if bootCaller {
				// API use during start-up: the handle is valid from OnBoot on
				bootWG.Add(1)
				go func() {
					defer bootWG.Done()
					for i := 0; ; i++ {
						select {
						case <-stopBoot:
							return
						default:
						}
						_ = e.CountConnections()
						st.inc("CountConnections@boot")
						if i%64 == 0 {
							time.Sleep(10 * time.Microsecond)
						}
					}
				}()
			}
			return gnet.None
		},
		onOpen: func(cs *connState, gc gnet.Conn) ([]byte, gnet.Action) {
			cs.armedLocal.Store(true)
			cs.armedRemote.Store(true)
			gc.SetSafeContext(cs.tok)
			live.Store(cs.tok, gc)
			return nil, gnet.None
		},
		onTraffic: func(cs *connState, gc gnet.Conn) gnet.Action {
			b, _ := gc.Next(-1)
			if len(b) > 0 {
				_, _ = gc.Write(b)
			}
			return gnet.None
		},
		onClose: func(cs *connState, gc gnet.Conn, err error) gnet.Action {
			// keep closed connections in the set for a while: late calls on them are part of the workload
			return gnet.None
		},
		onTick: func() (time.Duration, gnet.Action) { return time.Millisecond, gnet.None },
	})
	c.Ticker = true
	life, err := startServer(c, mon)
	if err != nil {
		res.Inconc("c05 %s: engine did not start: %v", c, err)
		close(stopBoot)
		bootWG.Wait()
		return 0
	}
	stop := make(chan struct{})
	var wg sync.WaitGroup
	// churn: peers connect, echo, close
	for p := 0; p < 4; p++ {
		wg.Add(1)
		go func(pr *vlib.Rand) {
			defer wg.Done()
			buf := make([]byte, 256)
			for {
				select {
				case <-stop:
					return
				default:
				}
				conn, err := dialPeer(life.dialNet, life.dialAddr)
				if err != nil {
					time.Sleep(time.Millisecond)
					continue
				}
				n := pr.Range(0, 6)
				for i := 0; i < n; i++ {
					_ = conn.SetDeadline(time.Now().Add(200 * time.Millisecond))
					if _, err := conn.Write([]byte("ping-ping")); err != nil {
						break
					}
					_, _ = conn.Read(buf)
				}
				if pr.Intn(4) == 0 {
					setLinger0(conn)
				}
				closePeer(conn)
			}
		}(r.Fork())
	}
	pick := func(pr *vlib.Rand) gnet.Conn {
		var out gnet.Conn
		k := pr.Intn(32)
		live.Range(func(key, v any) bool {
			out = v.(gnet.Conn)
			k--
			return k >= 0
		})
		return out
	}
	// forget old connections now and then so that the set stays small
	wg.Add(1)
	go func() {
		defer wg.Done()
		for {
			select {
			case <-stop:
				return
			case <-time.After(20 * time.Millisecond):
			}
			n := 0
			live.Range(func(k, v any) bool {
				n++
				if n > 64 {
					live.Delete(k)
				}
				return true
			})
		}
	}()
	for g := 0; g < ngor; g++ {
		wg.Add(1)
		go func(g int, pr *vlib.Rand) {
			defer wg.Done()
			payload := []byte("async-payload")
			for {
				select {
				case <-stop:
					return
				default:
				}
				gc := pick(pr)
				if gc == nil {
					time.Sleep(200 * time.Microsecond)
					continue
				}
				switch pr.Intn(20) {
				case 0:
					_ = gc.AsyncWrite(payload, func(c gnet.Conn, err error) error {
						mon.inCallback(c, "AsyncWrite-callback", func() {})
						return nil
					})
					st.inc("AsyncWrite")
				case 1:
					_ = gc.AsyncWritev([][]byte{payload, payload}, func(c gnet.Conn, err error) error {
						mon.inCallback(c, "AsyncWritev-callback", func() {})
						return nil
					})
					st.inc("AsyncWritev")
				case 2:
					_ = gc.Wake(func(c gnet.Conn, err error) error {
						mon.inCallback(c, "Wake-callback", func() {})
						return nil
					})
					st.inc("Wake")
				case 3:
					if pr.Intn(4) == 0 {
						_ = gc.Close()
						st.inc("Close")
					}
				case 4:
					if pr.Intn(4) == 0 {
						_ = gc.CloseWithCallback(func(c gnet.Conn, err error) error {
							mon.inCallback(c, "CloseWithCallback-callback", func() {})
							return nil
						})
						st.inc("CloseWithCallback")
					}
				case 5:
					_ = gc.SafeContext()
					st.inc("SafeContext")
				case 6:
					gc.SetSafeContext(g)
					st.inc("SetSafeContext")
				case 7:
					_ = gc.Fd()
					st.inc("Fd")
				case 8:
					if fd, err := gc.Dup(); err == nil {
						vsys.Disown(fd, "Conn.Dup")
						vsys.ForeignDel(fd)
						_ = unix.Close(fd)
					}
					st.inc("Dup")
				case 9:
					_ = gc.SetReadBuffer(32 * 1024)
					_ = gc.SetWriteBuffer(32 * 1024)
					st.inc("SetReadBuffer/SetWriteBuffer")
				case 10:
					_ = gc.SetNoDelay(pr.Bool())
					_ = gc.SetKeepAlivePeriod(30 * time.Second)
					_ = gc.SetKeepAlive(true, 30*time.Second, 5*time.Second, 3)
					st.inc("SetNoDelay/KeepAlive")
				case 11:
					_ = gc.SetLinger(-1)
					st.inc("SetLinger")
				case 12:
					_ = gc.EventLoop().Execute(context.Background(), gnet.RunnableFunc(func(ctx context.Context) error {
						execRuns.Add(1)
						return nil
					}))
					st.inc("EventLoop.Execute")
				case 13:
					_ = life.eng.CountConnections()
					st.inc("Engine.CountConnections")
				case 14:
					if pr.Intn(8) == 0 {
						// EventLoop.Register: dial a second connection to the engine itself and hand it to this loop
						addr, _ := net.ResolveTCPAddr("tcp", life.dialAddr)
						if life.dialNet == "unix" {
							break
						}
						ch, err := gc.EventLoop().Register(context.Background(), addr)
						if err == nil {
							select {
							case rr := <-ch:
								if rr.Conn != nil {
									_ = rr.Conn.Close()
								}
							case <-time.After(2 * time.Second):
							}
						}
						st.inc("EventLoop.Register")
					}
				case 15:
					if pr.Intn(8) == 0 && life.dialNet != "unix" {
						nc, err := net.Dial(life.dialNet, life.dialAddr)
						if err == nil {
							ch, err := gc.EventLoop().Enroll(context.Background(), nc)
							if err == nil {
								select {
								case rr := <-ch:
									if rr.Conn != nil {
										_ = rr.Conn.Close()
									}
								case <-time.After(2 * time.Second):
								}
							} else {
								_ = nc.Close()
							}
						}
						st.inc("EventLoop.Enroll")
					}
				case 16:
					if pr.Intn(8) == 0 && c.LB != gnet.RoundRobin && life.dialNet != "unix" {
						addr, _ := net.ResolveTCPAddr("tcp", life.dialAddr)
						ch, err := life.eng.Register(gnet.NewNetAddrContext(context.Background(), addr))
						if err == nil {
							select {
							case rr := <-ch:
								if rr.Conn != nil {
									_ = rr.Conn.Close()
								}
							case <-time.After(2 * time.Second):
							}
						}
						st.inc("Engine.Register")
					}
				default:
					_ = gc.Wake(nil)
					st.inc("Wake")
				}
				if pr.Intn(16) == 0 {
					time.Sleep(time.Duration(pr.Intn(100)) * time.Microsecond)
				}
			}
		}(g, r.Fork())
	}
	time.Sleep(dur)
	// Engine.Stop from two goroutines at once while the fire continues
	var swg sync.WaitGroup
	for k := 0; k < 2; k++ {
		swg.Add(1)
		go func() {
			defer swg.Done()
			ctx, cancel := context.WithTimeout(context.Background(), 15*time.Second)
			defer cancel()
			_ = life.eng.Stop(ctx)
			st.inc("Engine.Stop")
		}()
	}
	returned := life.waitDone(20 * time.Second)
	close(stop)
	close(stopBoot)
	swg.Wait()
	wg.Wait()
	bootWG.Wait()
	if !returned {
		res.Inconc("c05 %s: Run did not return within 20s under API fire", c)
	}
	var total int64
	st.calls.Range(func(k, v any) bool {
		n := v.(*atomic.Int64).Load()
		total += n
		res.Obs("api:"+k.(string), n)
		keys[c.class()+"|api|"+k.(string)] = struct{}{}
		return true
	})
	res.Obs("callbacks_attributed", mon.callbacks.Load())
	res.Obs("c05_connections", mon.opened.Load())
	res.Obs("c05_execute_runs", execRuns.Load())
	res.ObsMax("max:callback_nesting_depth", int64(mon.maxDepth.Load()))
	nl := 0
	mon.loopG.Range(func(k, v any) bool { nl++; return true })
	res.Obs("loops_seen", int64(nl))
	_ = fmt.Sprint
	return total
}
