//go:build verif

package main

import (
	"fmt"
	"os"

	"github.com/panjf2000/gnet/v2/pkg/vsys"
	"github.com/panjf2000/gnet/v2/zzverif/vlib"
)

func main() {
	res = vlib.Start("eng")
	scratchDir = os.Getenv("VERIF_SCRATCH")
	if scratchDir == "" {
		scratchDir = os.TempDir()
	}
	vsys.Tracing.Store(os.Getenv("VERIF_TRACE") != "")
	mode := *vlib.FlagMode
	keys := map[string]struct{}{}
	r := vlib.NewRand(res.Seed)
	switch mode {
	case "c01":
		ncfg, npeers := 14, 12
		if res.Thorough() {
			ncfg, npeers = 0, 30
		}
		if *vlib.FlagN > 0 {
			ncfg = *vlib.FlagN
		}
		cfgs := streamConfigs(r, res.Thorough(), ncfg)
		// client-role configurations
		for i, c := range cfgs {
			if i%4 == 3 {
				c.Client = true
				c.ReusePort = false
				cfgs[i] = c
			}
		}
		for i, c := range cfgs {
			n := runC01Case(c, res.Seed*1000003+uint64(i), npeers, keys)
			res.Eval(n)
			res.Checkpoint()
			if i < 2 {
				res.Sample(map[string]any{"case": "c01", "config": c.String(), "connections": npeers})
			}
		}
	case "c02":
		ncfg, npeers := 12, 8
		if res.Thorough() {
			ncfg, npeers = 0, 16
		}
		if *vlib.FlagN > 0 {
			ncfg = *vlib.FlagN
		}
		cfgs := streamConfigs(r, res.Thorough(), ncfg)
		for i, c := range cfgs {
			if i%4 == 3 {
				c.Client = true
				c.ReusePort = false
			}
			if i%3 == 1 {
				c.SndBuf = 4096
			}
			cfgs[i] = c
		}
		for i, c := range cfgs {
			n := runC02Case(c, res.Seed*1000033+uint64(i), npeers, keys)
			res.Eval(n)
			res.Checkpoint()
			if i < 2 {
				res.Sample(map[string]any{"case": "c02", "config": c.String(), "connections": npeers})
			}
		}
	default:
		fmt.Fprintln(os.Stderr, "eng: unknown mode", mode)
		os.Exit(2)
	}
	for k := range keys {
		res.Distinct(k)
	}
	res.Finish()
}
