//go:build verif

package main

import (
	"fmt"
	"os"
	"strings"
	"time"

	"golang.org/x/sys/unix"

	gnet "github.com/panjf2000/gnet/v2"

	"github.com/panjf2000/gnet/v2/pkg/vpoolbs"
	"github.com/panjf2000/gnet/v2/pkg/vpoolrb"
	"github.com/panjf2000/gnet/v2/pkg/vsys"
	"github.com/panjf2000/gnet/v2/zzverif/vlib"
)

var _ = vsys.Shimmed

func main() {
	res = vlib.Start("eng")
	scratchDir = os.Getenv("VERIF_SCRATCH")
	if scratchDir == "" {
		scratchDir = os.TempDir()
	}
	mode := *vlib.FlagMode
	// in-situ pool ledger (flavour "pool"): the framework's own Get/Put calls go through the wrapper packages
	vpoolbs.Enabled.Store(vsys.Pooled)
	vpoolrb.Enabled.Store(vsys.Pooled)
	defer collectPoolAlarms()
	// the textual shim log is the witness of ledger / fault findings; it is too costly for the bulk-traffic modes
	vsys.Tracing.Store(os.Getenv("VERIF_TRACE") != "" || mode == "c04" || mode == "c06" || mode == "c07" || mode == "c18" || mode == "c19")
	keys := map[string]struct{}{}
	r := vlib.NewRand(res.Seed)
	switch mode {
	case "c01":
		ncfg, npeers := 60, 12
		if res.Thorough() {
			ncfg, npeers = 0, 30
		}
		if *vlib.FlagN > 0 {
			ncfg = *vlib.FlagN
		}
		cfgs := streamConfigs(r, res.Thorough(), ncfg)
		// client-role configurations
		for i, c := range cfgs {
			if i%4 == 3 {
				c.Client = true
				c.ReusePort = false
				cfgs[i] = c
			}
		}
		for i, c := range cfgs {
			if res.TimeUp() {
				break
			}
			n := runC01Case(c, res.Seed*1000003+uint64(i), npeers, keys)
			res.Eval(n)
			res.Checkpoint()
			if i < 2 {
				res.Sample(map[string]any{"case": "c01", "config": c.String(), "connections": npeers})
			}
		}
	case "c02":
		ncfg, npeers := 24, 8
		if res.Thorough() {
			ncfg, npeers = 0, 16
		}
		if *vlib.FlagN > 0 {
			ncfg = *vlib.FlagN
		}
		cfgs := streamConfigs(r, res.Thorough(), ncfg)
		for i, c := range cfgs {
			if i%4 == 3 {
				c.Client = true
				c.ReusePort = false
			}
			if i%3 == 1 {
				c.SndBuf = 4096
			}
			cfgs[i] = c
		}
		for i, c := range cfgs {
			if res.TimeUp() {
				break
			}
			n := runC02Case(c, res.Seed*1000033+uint64(i), npeers, keys)
			res.Eval(n)
			res.Checkpoint()
			if i < 2 {
				res.Sample(map[string]any{"case": "c02", "config": c.String(), "connections": npeers})
			}
		}
	case "c04", "c06", "c07":
		runLifeMode(mode, r, keys)
	case "c08":
		ncase := 16
		if res.Thorough() {
			ncase = 80
		}
		if *vlib.FlagN > 0 {
			ncase = *vlib.FlagN
		}
		for i := 0; i < ncase && !res.TimeUp(); i++ {
			c := cfg{Net: []string{"udp", "udp6"}[i%2], Loops: []int{1, 4, 2}[i%3], RCap: []int{65536, 8192, 2048, 65536, 3000, 50000, 65507, 1025}[i%8], WCap: 65536, ReusePort: true}
			if i%4 == 3 {
				if ip, zone := linkLocal(); ip != nil {
					c.LinkLocal = ip.String() + "%" + zone
				} else if i == 3 {
					res.Note("c08: no link-local IPv6 address on this machine: scoped UDP addresses not exercised")
				}
			}
			n := runC08Case(c, res.Seed*1000403+uint64(i), r.Pick(1, 2, 5, 16), r.Pick(40, 120), keys)
			res.Eval(n)
			res.Checkpoint()
			if i < 2 {
				res.Sample(map[string]any{"case": "c08", "config": c.String()})
			}
		}
	case "c19":
		ncase := 9
		if res.Thorough() {
			ncase = 120
		}
		if *vlib.FlagN > 0 {
			ncase = *vlib.FlagN
		}
		cfgs := streamConfigs(r, true, 0)
		for k, variant := range []string{"expired-inside-OnBoot", "live-from-goroutine-during-OnBoot"} {
			res.Eval(runBootStopCase(cfgs[(k+3+int(res.Seed))%len(cfgs)], variant, keys))
			res.Checkpoint()
		}
		// the client's control API: Client.Stop after a callback asked for shutdown, and Client.Stop twice
		for k := 0; k < 2; k++ {
			cc := cfgs[(k+int(res.Seed))%len(cfgs)]
			cc.ReusePort = false
			res.Eval(runClientLifeCase(cc, res.Seed*1000519+uint64(k), r.Pick(4, 10), true, k == 0, keys))
			res.Checkpoint()
		}
		for i := 0; i < ncase && !res.TimeUp(); i++ {
			c := cfgs[i%len(cfgs)]
			c.LB = []gnet.LoadBalancing{gnet.LeastConnections, gnet.SourceAddrHash}[i%2] // Engine.Register is documented as not safe with RoundRobin
			kind := []string{"live", "live", "expired", "soon"}[i%4]
			addFaults := i%2 == 0 // every other life: registrations of enrolled descriptors fail now and then (epoll_ctl ADD)
			if addFaults && c.Net == "unix" {
				c.Net = "tcp" // Register by address needs a TCP listener
			}
			n := runC19Case(c, res.Seed*1000507+uint64(i), kind, addFaults, keys)
			res.Eval(n)
			res.Checkpoint()
			if i < 2 {
				res.Sample(map[string]any{"case": "c19", "config": c.String(), "stop_context": kind})
			}
		}
	case "c18", "c14":
		// c14: only the faults that make a registration fail - the registry must not keep what never opened
		K := int64(2)
		var cfgs []cfg
		for _, et := range []bool{false, true} {
			for _, rp := range []bool{false, true} {
				for _, nw := range []string{"tcp", "unix"} {
					if nw == "unix" && rp {
						continue
					}
					cfgs = append(cfgs, cfg{ET: et, Loops: 2, ReusePort: rp, Net: nw, RCap: 4096, WCap: 4096})
				}
			}
		}
		if res.Thorough() {
			K = 6
		} else {
			// quick: LT/reactor/tcp (the epoll_ctl MOD paths), ET/reuseport/tcp and one of the others, rotating with the seed
			rest := []cfg{cfgs[1], cfgs[2], cfgs[3], cfgs[4]}
			cfgs = []cfg{cfgs[0], cfgs[5], rest[int(res.Seed%uint64(len(rest)))]}
		}
		if *vlib.FlagN > 0 {
			K = int64(*vlib.FlagN)
		}
		var reached, notReached int64
		nr := map[string]int{}
		for ci, c := range cfgs {
			for fi, f := range faultList(c, K) {
				if res.TimeUp() {
					break
				}
				if mode == "c14" && f.call != vsys.CEpollAdd {
					continue
				}
				ok := runC18Case(c, res.Seed*1000603+uint64(ci*1000+fi), f, keys)
				if ok {
					reached++
				} else {
					notReached++
					nr[c.class()+" "+vsys.CallName(f.call)]++
				}
				res.Checkpoint()
				if res.NViolations() > 60 {
					break
				}
			}
		}
		for _, call := range []int{vsys.CRecvfrom, vsys.CSendto} {
			errnos := []unix.Errno{unix.ECONNREFUSED, unix.ENOBUFS}
			if call == vsys.CRecvfrom {
				errnos = append(errnos, unix.EAGAIN) // the datagram was dropped by the kernel after epoll had reported it (bad checksum)
			}
			for _, e := range errnos {
				for k := int64(1); k <= K && k <= 3 && mode == "c18"; k++ {
					if runC18UDPCase(res.Seed*1000609+uint64(k), call, e, k, keys) {
						reached++
					} else {
						notReached++
						nr["udp "+vsys.CallName(call)]++
					}
					res.Checkpoint()
				}
			}
		}
		res.Eval(reached)
		res.Obs("faults_injected_and_reached", reached)
		res.Obs("faults_planned_but_site_not_reached", notReached)
		res.Extra["not_reached"] = nr
		res.Sample(map[string]any{"case": "c18", "fault": "read:ECONNRESET@1 on an accepted connection", "workload": "6 echo connections with content oracle (2 of them bulk, creating back-pressure)"})
	case "c15":
		ns := []int{1, 2, 3, 4, 7}
		if res.Thorough() {
			ns = []int{1, 2, 3, 4, 5, 7, 8, 16, 32}
		}
		i := 0
		for _, n := range ns {
			for _, lb := range []gnet.LoadBalancing{gnet.RoundRobin, gnet.LeastConnections, gnet.SourceAddrHash} {
				for _, nw := range []string{"tcp", "unix"} {
					if !res.Thorough() && nw == "unix" && n > 3 {
						continue
					}
					c := cfg{Loops: n, Net: nw, LB: lb, RCap: 1024, WCap: 1024, ET: i%2 == 1}
					res.Eval(runC15Case(c, res.Seed*1000703+uint64(i), keys))
					res.Checkpoint()
					i++
				}
			}
		}
		res.Sample(map[string]any{"case": "c15", "how": "connections made one at a time; the loop of each OnOpen is compared with the policy's prediction from the monitor's own open/close log"})
	case "c17":
		subs := []string{"tcp4-fixed", "tcp6-fixed", "tcp4-port0", "tcp6-zone-lo", "tcp6-linklocal", "unix"}
		rounds := 1
		if res.Thorough() {
			rounds = 8
		}
		for k := 0; k < rounds; k++ {
			for i, sub := range subs {
				res.Eval(runC17Case(sub, res.Seed*1000801+uint64(k*10+i), keys))
				res.Checkpoint()
			}
		}
		res.Sample(map[string]any{"case": "c17", "subcases": subs})
	case "c05":
		nlife := 5
		if res.Thorough() {
			nlife = 40
		}
		if *vlib.FlagN > 0 {
			nlife = *vlib.FlagN
		}
		cfgs := streamConfigs(r, true, 0)
		for i := 0; i < nlife; i++ {
			c := cfgs[i%len(cfgs)]
			c.LB = []gnet.LoadBalancing{gnet.RoundRobin, gnet.LeastConnections, gnet.SourceAddrHash}[i%3]
			n := runC05Case(c, res.Seed*1000303+uint64(i), time.Duration(600+r.Intn(600))*time.Millisecond, r.Pick(8, 16, 32), i%2 == 1, keys)
			res.Eval(n)
			res.Checkpoint()
			if i < 2 {
				res.Sample(map[string]any{"case": "c05", "config": c.String(), "boot_caller": i%2 == 1})
			}
		}
	default:
		fmt.Fprintln(os.Stderr, "eng: unknown mode", mode)
		os.Exit(2)
	}
	for k := range keys {
		res.Distinct(k)
	}
	collectPoolAlarms()
	res.Finish()
}

// collectPoolAlarms turns alarms of the in-situ pool ledger into violations.
func collectPoolAlarms() {
	if !vsys.Pooled {
		return
	}
	for _, a := range vpoolbs.Alarms() {
		if strings.HasPrefix(a, "double-put:") {
			res.Violate("C12 in-situ byteslice.Put returns memory that is already in the pool", a, nil)
			continue
		}
		res.Violate("C12 in-situ byteslice.Get aliases memory the framework still holds", a, nil)
	}
	for _, a := range vpoolrb.Alarms() {
		res.Violate("C12 in-situ ringbuffer.Get handed out a ring that is held or not empty", a, nil)
	}
	res.Obs("insitu_byteslice_gets", vpoolbs.Gets.Swap(0))
	res.Obs("insitu_byteslice_puts", vpoolbs.Puts.Swap(0))
	res.Obs("insitu_ring_gets", vpoolrb.Gets.Swap(0))
	res.ObsMax("max:insitu_ranges_tracked", int64(vpoolbs.Tracked()))
}

func runLifeMode(mode string, r *vlib.Rand, keys map[string]struct{}) {
	if mode == "c07" || mode == "c19" {
		// failed starts: the k-th epoll_create1 / eventfd / epoll_ctl ADD of the start-up fails
		n := int64(0)
		for _, client := range []bool{false, true} {
			for _, call := range []int{vsys.CEpollCreate, vsys.CEventfd, vsys.CEpollAdd} {
				for k := int64(1); k <= 3 && vsys.Shimmed; k++ {
					c := cfg{Loops: 2, Net: "tcp", RCap: 1024, WCap: 1024, ReusePort: k%2 == 0}
					if runStartFailCase(c, res.Seed+uint64(k), call, k, client, keys) {
						n++
					}
				}
			}
		}
		for _, kind := range []string{"tcp", "tcp-reuseport", "tcp6", "udp", "rotate-second-busy"} {
			if runStartBusyCase(kind, keys) {
				n++
			}
		}
		res.Eval(n)
		res.Obs("failed_start_cases_reached", n)
		res.Checkpoint()
	}
	sources := []string{"Engine.Stop", "Stop", "OnOpen", "OnTraffic", "OnClose", "OnTick", "accept-error"}
	moments := []string{"idle", "connect-storm", "traffic"}
	ncase := 16
	if res.Thorough() {
		ncase = 150
	}
	if *vlib.FlagN > 0 {
		ncase = *vlib.FlagN
	}
	cfgs := streamConfigs(r, true, 0)
	if mode == "c06" {
		// the Shutdown an OnClose returns must count whichever way that close came about
		for i, via := range triggerVias {
			c := cfgs[(i+int(res.Seed))%len(cfgs)]
			if i%2 == 0 {
				c.Loops = 1 // several connections left on ONE loop when the sweep starts: each of their OnClose calls returns Shutdown
			}
			n := runLifeCase(c, res.Seed*1000213+uint64(i), lifeOpts{npeers: r.Pick(12, 20, 30), shutdownFrom: "OnClose", moment: "idle", via: via}, keys)
			res.Eval(n)
			res.Checkpoint()
		}
		// ... and the Shutdown an OnOpen returns counts also for a connection brought in through Engine.Register
		for i, rp := range []bool{false, true} {
			c := cfgs[(i+7+int(res.Seed))%len(cfgs)]
			c.Net, c.ReusePort, c.Rotate, c.LB = "tcp", rp, false, gnet.LeastConnections
			n := runLifeCase(c, res.Seed*1000217+uint64(i), lifeOpts{npeers: r.Pick(0, 4), shutdownFrom: "OnOpen", moment: "idle", via: "register"}, keys)
			res.Eval(n)
			res.Checkpoint()
		}
	}
	for i := 0; i < ncase && !res.TimeUp(); i++ {
		c := cfgs[i%len(cfgs)]
		o := lifeOpts{npeers: r.Pick(8, 20, 40), shutdownFrom: "Engine.Stop", moment: "idle"}
		switch mode {
		case "c04":
			o.npeers = r.Pick(20, 40, 60)
			if i%5 == 4 {
				o.shutdownFrom = "accept-error"
			}
		case "c06":
			c.Rotate = i%4 == 2 // two listeners via gnet.Rotate
			o.shutdownFrom = sources[i%len(sources)]
			o.moment = moments[(i/len(sources)+i)%len(moments)]
			o.npeers = r.Pick(0, 1, 20, 50)
			o.ticker = r.Bool()
			if (o.shutdownFrom == "OnTraffic" || o.shutdownFrom == "OnClose") && i%3 == 1 {
				o.moment, o.npeers = "async-backlog", r.Pick(20, 40)
			}
			if o.shutdownFrom == "accept-error" {
				// the loop that hits the error is an acceptor (reactor mode) or a loop with connections of its own
				// (SO_REUSEPORT mode): both ways of ending on an error, alternately, with connections open
				if c.ReusePort = (i/len(sources))%2 == 0; c.ReusePort && c.Net == "unix" {
					c.Net = "tcp"
				}
				c.Rotate = false
				o.npeers = r.Pick(20, 50)
			}
		case "c07":
			c.Rotate = i%5 == 3
			o.canaries = 3
			o.moment = moments[i%len(moments)]
			o.npeers = r.Pick(10, 30, 60)
			if i%3 == 1 {
				o.shutdownFrom = sources[r.Intn(len(sources))]
			}
			if i%7 == 4 {
				// an event loop that ends on an error (accept4: EMFILE) still closes every connection it serves
				o.shutdownFrom, o.moment = "accept-error", "idle"
				if c.ReusePort = (i/7)%2 == 0; c.ReusePort && c.Net == "unix" {
					c.Net = "tcp"
				}
				c.Rotate = false
			}
		}
		if !vsys.Shimmed && o.shutdownFrom == "accept-error" {
			o.shutdownFrom = "Engine.Stop" // the plain build (strace job) has no shim to inject the accept4 failure with
		}
		if f := os.Getenv("VERIF_LIFE_FORCE"); f != "" { // debugging aid: "source=accept-error,reuseport,loops=1,moment=idle"
			for _, kv := range strings.Split(f, ",") {
				switch {
				case strings.HasPrefix(kv, "source="):
					o.shutdownFrom = kv[7:]
				case strings.HasPrefix(kv, "moment="):
					o.moment = kv[7:]
				case kv == "reuseport":
					c.ReusePort = c.Net != "unix"
				case kv == "reactor":
					c.ReusePort = false
				case kv == "loops=1":
					c.Loops = 1
				}
			}
		}
		if only := os.Getenv("VERIF_LIFE_ONLY_CFG"); only != "" && c.String() != only { // debugging aid: one configuration only
			continue
		}
		if i%6 == 5 { // client engines: Dial/Enroll, connected UDP sockets, Client.Stop (every other one: Stop twice)
			c.ReusePort = false
			n := runClientLifeCase(c, res.Seed*1000231+uint64(i), r.Pick(3, 8, 20), i%12 == 11 || mode == "c07", i%12 == 5, keys)
			res.Eval(n)
			res.Checkpoint()
			continue
		}
		n := runLifeCase(c, res.Seed*1000211+uint64(i), o, keys)
		res.Eval(n)
		res.Checkpoint()
		if i < 2 {
			res.Sample(map[string]any{"case": mode, "config": c.String(), "connections": o.npeers, "shutdown_source": o.shutdownFrom, "moment": o.moment, "plans": lifePlans})
		}
	}
}
