//go:build verif

package main

import (
	"fmt"
	"os"
	"time"

	gnet "github.com/panjf2000/gnet/v2"

	"github.com/panjf2000/gnet/v2/pkg/vsys"
	"github.com/panjf2000/gnet/v2/zzverif/vlib"
)

func main() {
	res = vlib.Start("eng")
	scratchDir = os.Getenv("VERIF_SCRATCH")
	if scratchDir == "" {
		scratchDir = os.TempDir()
	}
	vsys.Tracing.Store(os.Getenv("VERIF_TRACE") != "")
	mode := *vlib.FlagMode
	keys := map[string]struct{}{}
	r := vlib.NewRand(res.Seed)
	switch mode {
	case "c01":
		ncfg, npeers := 14, 12
		if res.Thorough() {
			ncfg, npeers = 0, 30
		}
		if *vlib.FlagN > 0 {
			ncfg = *vlib.FlagN
		}
		cfgs := streamConfigs(r, res.Thorough(), ncfg)
		// client-role configurations
		for i, c := range cfgs {
			if i%4 == 3 {
				c.Client = true
				c.ReusePort = false
				cfgs[i] = c
			}
		}
		for i, c := range cfgs {
			n := runC01Case(c, res.Seed*1000003+uint64(i), npeers, keys)
			res.Eval(n)
			res.Checkpoint()
			if i < 2 {
				res.Sample(map[string]any{"case": "c01", "config": c.String(), "connections": npeers})
			}
		}
	case "c02":
		ncfg, npeers := 12, 8
		if res.Thorough() {
			ncfg, npeers = 0, 16
		}
		if *vlib.FlagN > 0 {
			ncfg = *vlib.FlagN
		}
		cfgs := streamConfigs(r, res.Thorough(), ncfg)
		for i, c := range cfgs {
			if i%4 == 3 {
				c.Client = true
				c.ReusePort = false
			}
			if i%3 == 1 {
				c.SndBuf = 4096
			}
			cfgs[i] = c
		}
		for i, c := range cfgs {
			n := runC02Case(c, res.Seed*1000033+uint64(i), npeers, keys)
			res.Eval(n)
			res.Checkpoint()
			if i < 2 {
				res.Sample(map[string]any{"case": "c02", "config": c.String(), "connections": npeers})
			}
		}
	case "c04", "c06", "c07":
		runLifeMode(mode, r, keys)
	case "c05":
		nlife := 5
		if res.Thorough() {
			nlife = 40
		}
		if *vlib.FlagN > 0 {
			nlife = *vlib.FlagN
		}
		cfgs := streamConfigs(r, true, 0)
		for i := 0; i < nlife; i++ {
			c := cfgs[i%len(cfgs)]
			c.LB = []gnet.LoadBalancing{gnet.RoundRobin, gnet.LeastConnections, gnet.SourceAddrHash}[i%3]
			n := runC05Case(c, res.Seed*1000303+uint64(i), time.Duration(600+r.Intn(600))*time.Millisecond, r.Pick(8, 16, 32), i%2 == 1, keys)
			res.Eval(n)
			res.Checkpoint()
			if i < 2 {
				res.Sample(map[string]any{"case": "c05", "config": c.String(), "boot_caller": i%2 == 1})
			}
		}
	default:
		fmt.Fprintln(os.Stderr, "eng: unknown mode", mode)
		os.Exit(2)
	}
	for k := range keys {
		res.Distinct(k)
	}
	res.Finish()
}

func runLifeMode(mode string, r *vlib.Rand, keys map[string]struct{}) {
	sources := []string{"Engine.Stop", "Stop", "OnOpen", "OnTraffic", "OnClose", "OnTick"}
	moments := []string{"idle", "connect-storm", "traffic"}
	ncase := 16
	if res.Thorough() {
		ncase = 150
	}
	if *vlib.FlagN > 0 {
		ncase = *vlib.FlagN
	}
	cfgs := streamConfigs(r, true, 0)
	for i := 0; i < ncase; i++ {
		c := cfgs[i%len(cfgs)]
		o := lifeOpts{npeers: r.Pick(8, 20, 40), shutdownFrom: "Engine.Stop", moment: "idle"}
		switch mode {
		case "c04":
			o.npeers = r.Pick(20, 40, 60)
		case "c06":
			o.shutdownFrom = sources[i%len(sources)]
			o.moment = moments[(i/len(sources)+i)%len(moments)]
			o.npeers = r.Pick(0, 1, 20, 50)
			o.ticker = r.Bool()
		case "c07":
			o.canaries = 3
			o.moment = moments[i%len(moments)]
			o.npeers = r.Pick(10, 30, 60)
			if i%3 == 1 {
				o.shutdownFrom = sources[r.Intn(len(sources))]
			}
		}
		n := runLifeCase(c, res.Seed*1000211+uint64(i), o, keys)
		res.Eval(n)
		res.Checkpoint()
		if i < 2 {
			res.Sample(map[string]any{"case": mode, "config": c.String(), "connections": o.npeers, "shutdown_source": o.shutdownFrom, "moment": o.moment, "plans": lifePlans})
		}
	}
}
