//go:build verif

package main

import (
	"context"
	"fmt"
	"net"
	"os"
	"strings"
	"sync"
	"sync/atomic"
	"syscall"
	"time"

	"golang.org/x/sys/unix"

	gnet "github.com/panjf2000/gnet/v2"
	"github.com/panjf2000/gnet/v2/pkg/vsys"
	"github.com/panjf2000/gnet/v2/zzverif/vlib"
)

// ---- C15 (end to end): the loop a connection is assigned to follows the policy, and is the loop
// on which all of its callbacks run ----------------------------------------------------------

func runC15Case(c cfg, seed uint64, keys map[string]struct{}) (evals int64) {
	r := vlib.NewRand(seed)
	c.ReusePort = false // the acceptor's load balancer only exists in reactor mode
	polName := map[gnet.LoadBalancing]string{gnet.RoundRobin: "rr", gnet.LeastConnections: "lc", gnet.SourceAddrHash: "hash"}[c.LB]
	mon := newMonitor("c15", hooks{
		onOpen: func(cs *connState, gc gnet.Conn) ([]byte, gnet.Action) {
			cs.armedLocal.Store(true)
			cs.armedRemote.Store(true)
			return nil, gnet.None
		},
		onTraffic: func(cs *connState, gc gnet.Conn) gnet.Action {
			_, _ = gc.Discard(-1)
			if gnet.VerifLoopIndex(gc) != cs.loopIdx {
				res.Violate("C15 callbacks of a connection ran on another loop than the one it was assigned to", fmt.Sprintf("connection %d assigned to loop %d, OnTraffic on loop %d", cs.tok, cs.loopIdx, gnet.VerifLoopIndex(gc)), nil)
			}
			return gnet.None
		},
	})
	life, err := startServer(c, mon)
	if err != nil {
		res.Inconc("c15 %s: engine did not start: %v", c, err)
		return 0
	}
	defer func() { _ = life.stop(10 * time.Second) }()
	// OnBoot runs before the loops are registered: wait until the engine has all of them
	waitCondQuick(3*time.Second, func() bool { return gnet.VerifNumLoops(life.eng) == c.Loops })
	N := gnet.VerifNumLoops(life.eng)
	if N != c.Loops {
		res.Inconc("c15: engine has %d loops, wanted %d", N, c.Loops)
		return 0
	}
	// connect one at a time, waiting for each OnOpen: the i-th accept is the i-th call of next()
	var lastDialErr error
	openOne := func(laddr net.Addr) (net.Conn, *connState) {
		before := mon.opened.Load()
		d := net.Dialer{Timeout: 5 * time.Second, LocalAddr: laddr, Control: func(_, _ string, rc syscall.RawConn) error {
			return rc.Control(func(fd uintptr) { _ = unix.SetsockoptInt(int(fd), unix.SOL_SOCKET, unix.SO_REUSEADDR, 1) })
		}}
		if laddr == nil && life.dialNet == "unix" {
			d.LocalAddr = &net.UnixAddr{Name: unixPath("peer"), Net: "unix"}
		}
		conn, err := d.Dial(life.dialNet, life.dialAddr)
		if err != nil {
			lastDialErr = err
			return nil, nil
		}
		if ok, _ := waitCond(5*time.Second, func() bool { return mon.opened.Load() > before }); !ok {
			closePeer(conn)
			return nil, nil
		}
		cs := mon.lookupKey(addrKey(conn.LocalAddr().String()))
		return conn, cs
	}
	closeOne := func(conn net.Conn, cs *connState) {
		setLinger0(conn) // RST: no TIME_WAIT, the local port can be reused at once
		closePeer(conn)
		if cs != nil {
			waitCond(5*time.Second, func() bool { return atomic.LoadInt32(&cs.state) == 2 })
		}
	}
	type oc struct {
		conn net.Conn
		cs   *connState
	}
	var open []oc
	defer func() {
		for _, o := range open {
			closePeer(o.conn)
		}
	}()
	switch c.LB {
	case gnet.RoundRobin:
		k := r.Range(2, 4)
		counts := make([]int, N)
		var order []int
		for i := 0; i < k*N; i++ {
			conn, cs := openOne(nil)
			if cs == nil {
				res.Inconc("c15 rr: connection %d did not open", i)
				return evals
			}
			open = append(open, oc{conn, cs})
			evals++
			if cs.loopIdx < 0 || cs.loopIdx >= N {
				res.Violate("C15 connection assigned to an unregistered loop policy=rr", fmt.Sprintf("loop index %d of %d", cs.loopIdx, N), nil)
				return evals
			}
			counts[cs.loopIdx]++
			order = append(order, cs.loopIdx)
			if (i+1)%N == 0 {
				for j, n := range counts {
					if n != (i+1)/N {
						res.Violate("C15 RoundRobin uneven after k*N accepts (engine)", fmt.Sprintf("N=%d: after %d accepts loop %d served %d connections, want %d; assignment order %v", N, i+1, j, n, (i+1)/N, order), map[string]any{"config": c.String()})
						return evals
					}
				}
			}
			// some closes in between must not disturb the cycle
			if r.Intn(5) == 0 && len(open) > 1 {
				j := r.Intn(len(open))
				closeOne(open[j].conn, open[j].cs)
				open = append(open[:j], open[j+1:]...)
			}
		}
		keys[fmt.Sprintf("engine|rr|N=%d|%s", N, c.Net)] = struct{}{}
	case gnet.LeastConnections:
		failedRegs := 0
		defer func() { res.Obs("c15_lc_failed_registrations", int64(failedRegs)) }()
		steps := 12 * N
		if steps > 120 {
			steps = 120
		}
		for i := 0; i < steps; i++ {
			if len(open) > 0 && r.Intn(3) == 0 {
				// close a random one (creates count vectors that an accept-only history never produces)
				j := r.Intn(len(open))
				closeOne(open[j].conn, open[j].cs)
				open = append(open[:j], open[j+1:]...)
				continue
			}
			// quiescent point: the monitor's own per-loop counts
			per := make([]int, N)
			for _, o := range open {
				per[o.cs.loopIdx]++
			}
			min := per[0]
			for _, n := range per {
				if n < min {
					min = n
				}
			}
			if vsys.Shimmed && i%7 == 3 && c.Net == "tcp" {
				// a registration that fails (epoll_ctl ADD) must leave no trace in the counts the policy balances on:
				// the connection is closed again without ever being opened, and the next accepts still go to a least
				// loaded loop
				vsys.PlanAdd(&vsys.Rule{Call: vsys.CEpollAdd, FD: -1, Class: "accepted", Index: 1, Action: vsys.AErrno, Errno: unix.ENOMEM, Once: true})
				before := mon.opened.Load()
				if fc, err := net.DialTimeout(life.dialNet, life.dialAddr, 5*time.Second); err == nil {
					_ = fc.SetReadDeadline(time.Now().Add(3 * time.Second))
					_, rerr := fc.Read(make([]byte, 1)) // the server closes it
					_ = fc.Close()
					if mon.opened.Load() != before {
						res.Inconc("c15 lc: the injected registration failure did not hit the new connection (%v)", rerr)
					} else {
						failedRegs++
						keys[fmt.Sprintf("engine|lc|failed-registration|N=%d", N)] = struct{}{}
					}
				}
				vsys.PlanClear()
				continue
			}
			conn, cs := openOne(nil)
			if cs == nil {
				res.Inconc("c15 lc: connection did not open")
				return evals
			}
			open = append(open, oc{conn, cs})
			evals++
			if cs.loopIdx < 0 || cs.loopIdx >= N {
				res.Violate("C15 connection assigned to an unregistered loop policy=lc", fmt.Sprintf("loop index %d of %d", cs.loopIdx, N), nil)
				return evals
			}
			if per[cs.loopIdx] != min {
				res.Violate("C15 LeastConnections chose a loop whose count is not minimal (engine)", fmt.Sprintf("N=%d: per-loop open connections %v, the new connection went to loop %d (count %d), minimum is %d", N, per, cs.loopIdx, per[cs.loopIdx], min), map[string]any{"config": c.String()})
				return evals
			}
		}
		keys[fmt.Sprintf("engine|lc|N=%d|%s", N, c.Net)] = struct{}{}
	case gnet.SourceAddrHash:
		for i := 0; i < 10; i++ {
			conn, cs := openOne(nil)
			if cs == nil {
				res.Inconc("c15 hash: connection did not open")
				return evals
			}
			la := conn.LocalAddr()
			first := cs.loopIdx
			closeOne(conn, cs)
			if ua, ok := la.(*net.UnixAddr); ok {
				_ = os.Remove(ua.Name)
			}
			// the same remote address again (and a third time)
			for rep := 0; rep < 2; rep++ {
				conn2, cs2 := openOne(la)
				if cs2 == nil {
					if lastDialErr != nil && strings.Contains(lastDialErr.Error(), "address already in use") {
						// the port number is also the source port of another live socket of this process (to another
						// destination): it cannot be bound explicitly; this address is simply not re-used
						res.Obs("c15_hash_reconnect_port_busy", 1)
					} else {
						res.Inconc("c15 hash: could not reconnect from %s: %v", la, lastDialErr)
					}
					break
				}
				evals++
				if cs2.remote != cs.remote {
					res.Inconc("c15 hash: reconnect got another address %s vs %s", cs2.remote, cs.remote)
				} else if cs2.loopIdx != first {
					res.Violate("C15 SourceAddrHash served the same remote address on different loops (engine)", fmt.Sprintf("N=%d: remote address %s was served by loop %d first and by loop %d after reconnecting", N, cs.remote, first, cs2.loopIdx), map[string]any{"config": c.String()})
				}
				closeOne(conn2, cs2)
				if ua, ok := la.(*net.UnixAddr); ok {
					_ = os.Remove(ua.Name)
				}
			}
		}
		if c.Net == "tcp" {
			evals += c15RegisterHash(c, life, mon, N, r, keys)
		}
		keys[fmt.Sprintf("engine|hash|N=%d|%s", N, c.Net)] = struct{}{}
	}
	_ = polName
	return evals
}

// c15RegisterHash: connections brought in through Engine.Register are balanced on their remote address like
// accepted ones - whatever else the context carries. The harness owns a listener X; every connection to it has
// the remote address X, so all of them belong on one loop.
func c15RegisterHash(c cfg, life *engineLife, mon *monitor, N int, r *vlib.Rand, keys map[string]struct{}) (evals int64) {
	for round := 0; round < 4; round++ {
		ln, err := net.Listen("tcp", "127.0.0.1:0")
		if err != nil {
			res.Inconc("c15 hash/register: listen: %v", err)
			return
		}
		var accepted []net.Conn
		var amu sync.Mutex
		go func() {
			for {
				ac, err := ln.Accept()
				if err != nil {
					return
				}
				amu.Lock()
				accepted = append(accepted, ac)
				amu.Unlock()
			}
		}()
		X := ln.Addr()
		loops := map[int][]string{}
		await := func(what string, ch <-chan gnet.RegisteredResult, err error) {
			if err != nil {
				res.Inconc("c15 hash/register %s: %v", what, err)
				return
			}
			select {
			case rr := <-ch:
				if rr.Err != nil || rr.Conn == nil {
					res.Inconc("c15 hash/register %s: result %v", what, rr.Err)
					return
				}
				idx := gnet.VerifLoopIndex(rr.Conn)
				loops[idx] = append(loops[idx], what)
				evals++
				if cs := mon.stateOf(rr.Conn); cs != nil {
					cs.armedLocal.Store(true)
					cs.armedRemote.Store(true)
				}
				_ = rr.Conn.Close()
			case <-time.After(5 * time.Second):
				res.Inconc("c15 hash/register %s: no result within 5s", what)
			}
		}
		dial := func() net.Conn {
			nc, err := net.DialTimeout("tcp", X.String(), 3*time.Second)
			if err != nil {
				return nil
			}
			return nc
		}
		// 1. the connection alone
		if nc := dial(); nc != nil {
			ch, err := life.eng.Register(gnet.NewNetConnContext(context.Background(), nc))
			await("conn", ch, err)
		}
		// 2. the connection together with unrelated addresses in the same context (either nesting order)
		for k := 0; k < 6; k++ {
			decoy := &net.TCPAddr{IP: net.IPv4(10, byte(r.Intn(250)), byte(r.Intn(250)), byte(1+r.Intn(250))), Port: 1 + r.Intn(65000)}
			nc := dial()
			if nc == nil {
				continue
			}
			var ctx context.Context
			if k%2 == 0 {
				ctx = gnet.NewNetConnContext(gnet.NewNetAddrContext(context.Background(), decoy), nc)
			} else {
				ctx = gnet.NewNetAddrContext(gnet.NewNetConnContext(context.Background(), nc), decoy)
			}
			ch, err := life.eng.Register(ctx)
			await(fmt.Sprintf("conn+addr(%s)", decoy), ch, err)
		}
		// 3. the address alone (the engine dials X itself)
		ch, err := life.eng.Register(gnet.NewNetAddrContext(context.Background(), X))
		await("addr", ch, err)
		if len(loops) > 1 {
			res.Violate("C15 SourceAddrHash served the same remote address on different loops (Register)", fmt.Sprintf("N=%d: connections to %s registered through Engine.Register were spread over loops %v", N, X, loops), map[string]any{"config": c.String()})
		}
		keys[fmt.Sprintf("engine|hash|register|N=%d", N)] = struct{}{}
		_ = ln.Close()
		time.Sleep(2 * time.Millisecond)
		amu.Lock()
		for _, ac := range accepted {
			_ = ac.Close()
		}
		amu.Unlock()
	}
	return
}
