//go:build verif

package main

import (
	"errors"
	"fmt"
	"io"
	"net"
	"sync"
	"sync/atomic"
	"time"

	"golang.org/x/sys/unix"

	gnet "github.com/panjf2000/gnet/v2"
	"github.com/panjf2000/gnet/v2/pkg/vsys"
	"github.com/panjf2000/gnet/v2/zzverif/vlib"
)

// ---- C18: an I/O failure stays on its connection (fault enumeration through the shim) -----

type fault struct {
	call   int
	errno  unix.Errno
	k      int64  // k-th matching call after installation
	class  string // ledger class of the target descriptor ("" = any)
	retry  bool   // the code declares this condition retryable: no visible effect at all
	fresh  bool   // the fault can only hit a connection that is being registered: dial one
	second *fault // optional second fault (pairs)
	site   string // restrict the fault to calls made from this framework function ("" = any)
	greet  bool   // connections opened after the installation get a reply from OnOpen (the write inside conn.open)
}

func (f fault) String() string {
	s := fmt.Sprintf("%s:%s@%d", vsys.CallName(f.call), errnoName(f.errno), f.k)
	if f.site != "" {
		s += "[" + f.site + "]"
	}
	if f.second != nil {
		s += "+" + f.second.String()
	}
	return s
}

func errnoName(e unix.Errno) string {
	switch e {
	case unix.ECONNRESET:
		return "ECONNRESET"
	case unix.ETIMEDOUT:
		return "ETIMEDOUT"
	case unix.EPIPE:
		return "EPIPE"
	case unix.ENOMEM:
		return "ENOMEM"
	case unix.ENOENT:
		return "ENOENT"
	case unix.EINTR:
		return "EINTR"
	case unix.EIO:
		return "EIO"
	case unix.EAGAIN:
		return "EAGAIN"
	case unix.ECONNABORTED:
		return "ECONNABORTED"
	case unix.ECONNREFUSED:
		return "ECONNREFUSED"
	case unix.ENOBUFS:
		return "ENOBUFS"
	case unix.ENOSPC:
		return "ENOSPC"
	}
	return fmt.Sprintf("errno%d", int(e))
}

// faultList enumerates the single faults and a few pairs for one configuration.
func faultList(c cfg, K int64) []fault {
	var out []fault
	add := func(call int, class string, retry, fresh bool, errnos ...unix.Errno) {
		for _, e := range errnos {
			for k := int64(1); k <= K; k++ {
				out = append(out, fault{call: call, errno: e, k: k, class: class, retry: retry, fresh: fresh})
			}
		}
	}
	add(vsys.CRead, "accepted", false, false, unix.ECONNRESET, unix.ETIMEDOUT)
	add(vsys.CWrite, "accepted", false, false, unix.EPIPE, unix.ECONNRESET, unix.ETIMEDOUT)
	add(vsys.CWritev, "accepted", false, false, unix.EPIPE, unix.ECONNRESET)
	add(vsys.CEpollMod, "accepted", false, false, unix.ENOMEM, unix.ENOENT)
	add(vsys.CEpollDel, "accepted", false, false, unix.ENOENT, unix.ENOMEM)
	add(vsys.CClose, "accepted", false, false, unix.EINTR, unix.EIO)
	if !c.ET {
		add(vsys.CRead, "accepted", true, false, unix.EAGAIN)
		add(vsys.CWrite, "accepted", true, false, unix.EAGAIN)
	}
	add(vsys.CEpollWait, "", true, false, unix.EINTR)
	add(vsys.CAccept, "", true, true, unix.EINTR, unix.ECONNABORTED, unix.ECONNRESET)
	// the wake-up write that hands a new connection (or any request) to a loop finds the eventfd counter saturated:
	// declared retryable by the code itself, so the connection being handed over is served all the same
	add(vsys.CEfdWrite, "", true, true, unix.EAGAIN)
	// the same calls at specific framework call sites that the plain call index reaches rarely:
	// the flush path on a writable event, the residual flush in close, the re-arming after a partial write
	for _, sf := range []fault{
		{call: vsys.CWrite, errno: unix.EPIPE, site: "(*eventloop).write"},
		{call: vsys.CWritev, errno: unix.ECONNRESET, site: "(*eventloop).write"},
		{call: vsys.CEpollMod, errno: unix.ENOMEM, site: "(*eventloop).write"},
		{call: vsys.CEpollMod, errno: unix.ENOMEM, site: "(*conn).write"},
		{call: vsys.CEpollMod, errno: unix.ENOENT, site: "(*conn).writev"},
		{call: vsys.CWrite, errno: unix.ECONNRESET, site: "(*conn).write"},
		{call: vsys.CWritev, errno: unix.EPIPE, site: "(*conn).writev"},
	} {
		for k := int64(1); k <= K && k <= 3; k++ {
			f := sf
			f.k, f.class = k, "accepted"
			out = append(out, f)
		}
	}
	// the write of the OnOpen reply fails (the first write on a connection, made inside conn.open)
	out = append(out, fault{call: vsys.CWrite, errno: unix.EPIPE, k: 1, class: "accepted", site: "(*conn).open", fresh: true, greet: true})
	out = append(out, fault{call: vsys.CWrite, errno: unix.ECONNRESET, k: 1, class: "accepted", site: "(*conn).open", fresh: true, greet: true})
	// registration of a new connection fails
	for k := int64(1); k <= 2; k++ {
		out = append(out, fault{call: vsys.CEpollAdd, errno: unix.ENOMEM, k: k, class: "accepted", fresh: true})
		out = append(out, fault{call: vsys.CEpollAdd, errno: unix.ENOSPC, k: k, class: "accepted", fresh: true})
	}
	// pairs: an I/O failure closes the connection and a second call fails during the tear-down
	for _, first := range []fault{{call: vsys.CWrite, errno: unix.EPIPE, k: 1, class: "accepted"}, {call: vsys.CRead, errno: unix.ECONNRESET, k: 2, class: "accepted"}} {
		for _, sec := range []fault{{call: vsys.CEpollDel, errno: unix.ENOENT, k: 1, class: "accepted"}, {call: vsys.CClose, errno: unix.EIO, k: 1, class: "accepted"},
			// the goodbye that the handler writes in OnClose fails as well (the connection really is broken)
			{call: vsys.CWrite, errno: unix.EPIPE, k: 1, class: "accepted"}} {
			f, s := first, sec
			f.second = &s
			out = append(out, f)
		}
	}
	return out
}

type c18Conn struct {
	writev   bool
	bulk     bool
	echoed   atomic.Int64
	closeErr atomic.Value
}

type c18Peer struct {
	conn    net.Conn
	key     uint64
	bulk    bool
	rounds  atomic.Int64
	bad     atomic.Int64
	badInfo atomic.Value
	dead    atomic.Bool
	deadErr atomic.Value
	stop    atomic.Bool
	done    chan struct{}
	sent    int64
}

// echo loop with content oracle: what comes back must be what was sent, in order.
func (p *c18Peer) run(r *vlib.Rand) {
	defer close(p.done)
	off := int64(0)
	buf := make([]byte, 300*1024)
	for !p.stop.Load() {
		n := r.Pick(1, 17, 300, 1400, 5000)
		if p.bulk {
			n = r.Pick(32*1024, 64*1024, 100*1024)
		}
		out := buf[:n]
		vlib.StreamFill(p.key, off, out)
		_ = p.conn.SetDeadline(time.Now().Add(8 * time.Second))
		if p.bulk {
			// write everything before reading anything back, so that the server runs into back-pressure
			go func(b []byte) { _, _ = p.conn.Write(b) }(append([]byte(nil), out...))
			time.Sleep(time.Duration(r.Intn(3000)) * time.Microsecond)
		} else if _, err := p.conn.Write(out); err != nil {
			p.dead.Store(true)
			p.deadErr.Store(err.Error())
			return
		}
		in := make([]byte, n)
		if _, err := io.ReadFull(p.conn, in); err != nil {
			p.dead.Store(true)
			p.deadErr.Store(err.Error())
			return
		}
		if at := vlib.StreamCheck(p.key, off, in); at >= 0 {
			p.bad.Add(1)
			p.badInfo.Store(fmt.Sprintf("echo of stream offset %d differs at byte %d of %d", off, at, n))
			return
		}
		off += int64(n)
		p.rounds.Add(1)
		if !p.bulk {
			time.Sleep(time.Duration(r.Intn(400)) * time.Microsecond)
		}
	}
}

func runC18Case(c cfg, seed uint64, f fault, keys map[string]struct{}) (reached bool) {
	r := vlib.NewRand(seed)
	var mon *monitor
	var greetNow atomic.Bool
	mon = newMonitor("c18", hooks{
		onOpen: func(cs *connState, gc gnet.Conn) ([]byte, gnet.Action) {
			cs.sc = &c18Conn{writev: vlib.Mix(cs.key)%3 == 0}
			cs.armedLocal.Store(true)
			cs.armedRemote.Store(true)
			if greetNow.Load() {
				return []byte("greeting"), gnet.None
			}
			return nil, gnet.None
		},
		onTraffic: func(cs *connState, gc gnet.Conn) gnet.Action {
			d := cs.sc.(*c18Conn)
			b, _ := gc.Next(-1)
			if len(b) == 0 {
				return gnet.None
			}
			if d.writev && len(b) > 3 {
				_, _ = gc.Writev([][]byte{b[:1], b[1:3], b[3:]})
			} else {
				_, _ = gc.Write(b)
			}
			d.echoed.Add(int64(len(b)))
			return gnet.None
		},
		onClose: func(cs *connState, gc gnet.Conn, err error) gnet.Action {
			if err != nil {
				cs.sc.(*c18Conn).closeErr.Store(err.Error())
			}
			// a handler that says goodbye: the framework flushes what OnClose writes; on a broken connection this
			// write fails in turn, which must not start another close
			_, _ = gc.Write([]byte("farewell"))
			return gnet.None
		},
	})
	vsys.ResetAlarms()
	vsys.ResetLedger()
	vsys.PlanClear()
	defer vsys.PlanClear()
	c.SndBuf = 8192 // small send buffers: the server's writes run into EAGAIN / partial writes (epoll_ctl MOD paths)
	life, err := startServer(c, mon)
	if err != nil {
		res.Inconc("c18 %s: engine did not start: %v", c, err)
		return false
	}
	defer func() {
		if err := life.stop(10 * time.Second); err != nil {
			res.Inconc("c18 %s %s: stop: %v", c, f, err)
		}
		mon.lifecycleSummary(life.retSeq)
	}()
	sig := func(what string) string {
		return fmt.Sprintf("C18 fault=%s:%s %s", vsys.CallName(f.call), errnoName(f.errno), what)
	}
	viol := func(what, detail string) {
		res.Violate(sig(what), fmt.Sprintf("config %s, fault %s: %s", c, f, detail), map[string]any{"config": c.String(), "fault": f.String(), "events": mon.tail(30), "shim_log": vsys.LogTail(40)})
	}
	// bystanders + potential victims
	npeers := 6
	peers := make([]*c18Peer, npeers)
	for i := range peers {
		conn, err := dialPeer(life.dialNet, life.dialAddr)
		if err != nil {
			res.Inconc("c18: dial: %v", err)
			return false
		}
		p := &c18Peer{conn: conn, key: addrKey(conn.LocalAddr().String()), bulk: i >= npeers-2, done: make(chan struct{})}
		if p.bulk {
			setSockBuf(conn, 0, 160*1024)
		}
		peers[i] = p
		go p.run(r.Fork())
	}
	stopPeers := func() {
		for _, p := range peers {
			p.stop.Store(true)
		}
		for _, p := range peers {
			select {
			case <-p.done:
			case <-time.After(10 * time.Second):
			}
			closePeer(p.conn)
		}
	}
	defer stopPeers()
	// warm-up: every peer has completed a round
	if ok, v := waitCond(5*time.Second, func() bool {
		for _, p := range peers {
			if p.rounds.Load() < 1 && !p.dead.Load() {
				return false
			}
		}
		return true
	}); !ok {
		res.Inconc("c18 %s: warm-up did not finish: %s", c, v)
		return false
	}
	opened0, closed0 := mon.opened.Load(), mon.closed.Load()
	// install the fault(s)
	firstRule := &vsys.Rule{Call: f.call, FD: -1, Class: f.class, Index: f.k, Action: vsys.AErrno, Errno: f.errno, Once: true, Site: f.site}
	id := vsys.PlanAdd(firstRule)
	if f.second != nil {
		// installed together with the first fault: the tear-down it is meant for runs on the loop right away
		vsys.PlanAdd(&vsys.Rule{Call: f.second.call, FD: -1, Index: f.second.k, Action: vsys.AErrno, Errno: f.second.errno, Once: true, After: firstRule})
	}
	var freshConn net.Conn
	greetNow.Store(f.greet)
	if f.fresh {
		// the fault can only hit connections that are being accepted / registered: let k of them arrive
		for i := int64(0); i < f.k; i++ {
			if freshConn != nil {
				defer closePeer(freshConn)
			}
			freshConn, _ = dialPeer(life.dialNet, life.dialAddr)
			time.Sleep(300 * time.Microsecond)
		}
		if freshConn != nil {
			defer closePeer(freshConn)
		}
	}
	var closer net.Conn
	if f.call == vsys.CClose || f.call == vsys.CEpollDel {
		// these calls are only made when a connection goes away: let extra connections come and go
		for i := int64(0); i < f.k; i++ {
			if closer, _ = dialPeer(life.dialNet, life.dialAddr); closer != nil {
				_ = closer.SetDeadline(time.Now().Add(3 * time.Second))
				_, _ = closer.Write([]byte("x"))
				var one [1]byte
				_, _ = io.ReadFull(closer, one[:])
				closePeer(closer)
			}
		}
	}
	fired, _ := waitCondQuick(1200*time.Millisecond, func() bool { return vsys.NFired() >= 1 })
	if !fired {
		return false // site not reached in this configuration: reported as not reached, not as held
	}
	fr := vsys.Fired()[0]
	_ = id
	victimFD := fr.FD

	keys[fmt.Sprintf("%s|%s|%s|site=%s", c.class(), vsys.CallName(f.call), errnoName(f.errno), fr.Site)] = struct{}{}
	// who is the victim?
	var victim *connState
	for _, cs := range mon.snapshot() {
		// the connection that owned the number when the fault fired: the latest one opened before that moment
		if cs.fd == victimFD && cs.openSeq < fr.Seq && (victim == nil || cs.openSeq > victim.openSeq) {
			victim = cs
		}
	}
	if f.retry {
		// no visible effect at all: nobody is closed, everybody keeps echoing verified data, the connection being accepted is served
		time.Sleep(5 * time.Millisecond)
		r0 := make([]int64, len(peers))
		for i, p := range peers {
			r0[i] = p.rounds.Load()
		}
		ok, v := waitCond(6*time.Second, func() bool {
			for i, p := range peers {
				if p.dead.Load() || p.bad.Load() > 0 {
					return true
				}
				if p.rounds.Load() < r0[i]+2 {
					return false
				}
			}
			return true
		})
		for _, p := range peers {
			if p.dead.Load() {
				viol("retryable condition closed a connection", fmt.Sprintf("peer %x lost its connection: %v", p.key, p.deadErr.Load()))
			}
			if p.bad.Load() > 0 {
				viol("retryable condition corrupted a stream", fmt.Sprint(p.badInfo.Load()))
			}
		}
		if !ok {
			if verdictStuck(v) {
				viol("retryable condition stalled the connections", v)
			} else {
				res.Inconc("c18 %s %s: bystanders slow: %s", c, f, v)
			}
		}
		if mon.closed.Load() != closed0 {
			viol("retryable condition caused an OnClose", fmt.Sprintf("%d connections were closed", mon.closed.Load()-closed0))
		}
		if f.fresh {
			if freshConn == nil {
				viol("connection being accepted was not served", "dial failed")
			} else {
				_ = freshConn.SetDeadline(time.Now().Add(5 * time.Second))
				msg := []byte("still-served")
				_, _ = freshConn.Write(msg)
				got := make([]byte, len(msg))
				if _, err := io.ReadFull(freshConn, got); err != nil || string(got) != string(msg) {
					viol("connection being accepted was not served", fmt.Sprintf("echo on the connection that was being accepted when the retryable error was injected: %q, %v", got, err))
				}
			}
		}
		return true
	}
	// ---- non-retryable: the victim (and only the victim) is closed
	if f.call == vsys.CEpollAdd {
		// the connection never opened: no OnOpen, no OnClose, descriptor released, peer sees the close
		time.Sleep(5 * time.Millisecond)
		if got := mon.opened.Load() - opened0; got > f.k-1 { // the k-1 connections before the victim open normally
			viol("OnOpen ran for a connection whose registration failed", fmt.Sprintf("%d connections arrived, the registration of the last one failed, OnOpen ran %d times", f.k, got))
		}
		if fi, ok := vsys.Info(victimFD); ok && fi.State == 1 && fi.Gen > 0 && fdIdent(victimFD) != "" {
			// decided in the loops' logical time, not by the clock: the failing registration and its clean-up are one call on
			// one loop, so once EVERY loop has entered another callback that call has returned
			base := mon.loopCallsAll()
			gone := func() bool { fi2, _ := vsys.Info(victimFD); return fi2.State != 1 || fdIdent(victimFD) == "" }
			allAdvanced := func() bool {
				now := mon.loopCallsAll()
				for l, n := range base {
					if now[l] <= n {
						return false
					}
				}
				return len(base) > 0
			}
			okw, v := waitCond(6*time.Second, func() bool { return gone() || allAdvanced() })
			if !gone() {
				if okw || verdictStuck(v) {
					viol("descriptor of the failed connection not released", fmt.Sprintf("fd %d is still open although every loop has run further callbacks since (or is idle: %s)", victimFD, v))
				} else {
					res.Inconc("c18 %s %s: descriptor %d of the failed registration still open, loops neither idle nor advancing (%s)", c, f, victimFD, v)
				}
			}
		}
	} else if victim == nil {
		// the descriptor belongs to no opened connection (e.g. hit during registration): nothing more to check here
		res.Note("c18 %s %s: fault hit fd %d which belongs to no opened connection", c, f, victimFD)
	} else {
		closedOnce := func() bool { return atomic.LoadInt32(&victim.closes) >= 1 }
		needClose := f.call != vsys.CClose && f.call != vsys.CEpollDel
		if needClose {
			ok, v := waitCond(5*time.Second, closedOnce)
			if !ok {
				if verdictStuck(v) {
					viol("victim connection was not closed", fmt.Sprintf("connection %d (fd %d) is still open: no OnClose after the failed %s; %s", victim.tok, victim.fd, vsys.CallName(f.call), v))
				} else {
					// the loops are not idle: spinning (a state that cannot end by itself) or merely slow?
					c1 := shimCalls()
					time.Sleep(2 * time.Second)
					if !closedOnce() && shimCalls()-c1 > 20000 {
						viol("victim connection was not closed", fmt.Sprintf("connection %d (fd %d) is still open 20s after the failed %s and the loops are spinning: %d system calls in 2s (%s)", victim.tok, victim.fd, vsys.CallName(f.call), shimCalls()-c1, v))
					} else if !closedOnce() {
						res.Inconc("c18 %s %s: victim not closed after 20s, loops busy but not spinning (%s)", c, f, v)
					}
				}
			} else if victim.closeErr == nil {
				viol("victim OnClose carried a nil error", fmt.Sprintf("connection %d was closed after the failed %s but OnClose reported no error", victim.tok, vsys.CallName(f.call)))
			}
		} else {
			// close/epoll_ctl DEL fail while the connection is being closed anyway: wait for that close
			waitCondQuick(3*time.Second, closedOnce)
		}
		if closedOnce() {
			time.Sleep(2 * time.Millisecond)
			if n := atomic.LoadInt32(&victim.closes); n != 1 {
				viol("victim saw OnClose more than once", fmt.Sprintf("%d times", n))
			}
			// the descriptor is released by the same close() that delivered OnClose: once the victim's loop has entered another
			// callback, that close() has returned (logical time of the loop, no clock)
			released := func() bool {
				fi, ok := vsys.Info(victimFD)
				return !ok || fi.State != 1 || fi.Gen == 0 || fdIdent(victimFD) == "" || reusedByNewConn(mon, victimFD, victim)
			}
			loopMovedOn := func() bool { return mon.loopCalls(victim.loop) > atomic.LoadInt64(&victim.closeLoopCalls) }
			okw, v := waitCond(6*time.Second, func() bool { return released() || loopMovedOn() })
			if !released() {
				if okw || verdictStuck(v) {
					viol("descriptor of the failed connection not released", fmt.Sprintf("connection %d saw OnClose but its descriptor %d is still open (%s) although its loop has moved on (or is idle: %s)", victim.tok, victimFD, fdIdent(victimFD), v))
				} else {
					res.Inconc("c18 %s %s: victim's descriptor %d still open, its loop neither idle nor advancing (%s)", c, f, victimFD, v)
				}
			}
		}
	}
	// bystanders keep their stream integrity and make progress
	r0 := make([]int64, len(peers))
	var victimPeer *c18Peer
	for i, p := range peers {
		r0[i] = p.rounds.Load()
		if victim != nil && p.key == victim.key {
			victimPeer = p
		}
	}
	ok, v := waitCond(6*time.Second, func() bool {
		for i, p := range peers {
			if p == victimPeer {
				continue
			}
			if p.dead.Load() || p.bad.Load() > 0 {
				return true
			}
			if p.rounds.Load() < r0[i]+2 {
				return false
			}
		}
		return true
	})
	for _, p := range peers {
		if p == victimPeer {
			continue
		}
		if p.dead.Load() {
			viol("a bystander connection was closed", fmt.Sprintf("peer %x (not the victim fd %d) lost its connection: %v", p.key, victimFD, p.deadErr.Load()))
		}
		if p.bad.Load() > 0 {
			viol("a bystander stream was corrupted", fmt.Sprint(p.badInfo.Load()))
		}
	}
	if !ok {
		if verdictStuck(v) {
			viol("bystander connections stalled", v)
		} else {
			res.Inconc("c18 %s %s: bystanders slow: %s", c, f, v)
		}
	}
	if victim != nil {
		allowed := int64(1)
		if f.call == vsys.CClose || f.call == vsys.CEpollDel {
			allowed = f.k // the harness's own short-lived connections that provoke the close path
		}
		if n := mon.closed.Load() - closed0; n > allowed {
			viol("more than one connection was closed", fmt.Sprintf("%d connections saw OnClose after a single fault on fd %d", n, victimFD))
		}
	}
	// the engine still serves new connections
	greetNow.Store(false)
	if nc, err := dialPeer(life.dialNet, life.dialAddr); err != nil {
		viol("engine no longer accepts connections", fmt.Sprint(err))
	} else {
		_ = nc.SetDeadline(time.Now().Add(5 * time.Second))
		msg := []byte("fresh-echo-after-fault")
		_, _ = nc.Write(msg)
		got := make([]byte, len(msg))
		if _, err := io.ReadFull(nc, got); err != nil || string(got) != string(msg) {
			viol("engine no longer serves new connections", fmt.Sprintf("echo on a fresh connection: %q, %v", got, err))
		}
		closePeer(nc)
	}
	// the failed connection has left the engine's books: the registry counts exactly the connections that are open
	if ok, _ := waitCondQuick(3*time.Second, func() bool {
		return int64(life.eng.CountConnections()) == mon.opened.Load()-mon.closed.Load()
	}); !ok {
		time.Sleep(20 * time.Millisecond)
		if got, want := int64(life.eng.CountConnections()), mon.opened.Load()-mon.closed.Load(); got != want {
			viol("engine counts a connection that is not open", fmt.Sprintf("CountConnections()=%d, %d opened - %d closed = %d", got, mon.opened.Load(), mon.closed.Load(), want))
		}
	}
	for _, a := range vsys.Alarms() {
		res.Violate(fmt.Sprintf("C07 %s op=%s site=%s", a.Kind, a.Op, a.Site), fmt.Sprintf("config %s, fault %s: %s on fd %d: %s", c, f, a.Kind, a.FD, a.Detail), map[string]any{"config": c.String(), "fault": f.String(), "shim_log": vsys.LogTail(40)})
	}
	return true
}

func reusedByNewConn(mon *monitor, fd int, old *connState) bool {
	for _, cs := range mon.snapshot() {
		if cs != old && cs.fd == fd && cs.openSeq > old.closeSeq {
			return true
		}
	}
	return false
}

// waitCondQuick is waitCond without the stuck predicate.
func waitCondQuick(d time.Duration, cond func() bool) (bool, string) {
	dl := time.Now().Add(d)
	for time.Now().Before(dl) {
		if cond() {
			return true, ""
		}
		time.Sleep(200 * time.Microsecond)
	}
	return cond(), ""
}

var _ = errors.New
var _ sync.Mutex

// runC18UDPCase: a fault on recvfrom / sendto of a UDP listener must not disturb the engine or other senders.
func runC18UDPCase(seed uint64, call int, errno unix.Errno, k int64, keys map[string]struct{}) (reached bool) {
	c := cfg{Net: "udp", Loops: 2, RCap: 65536, WCap: 65536, ReusePort: true}
	var answers, writeErrs atomic.Int64
	mon := newMonitor("c18udp", hooks{onDatagram: func(gc gnet.Conn) gnet.Action {
		b, _ := gc.Next(-1)
		if _, err := gc.Write(b); err != nil {
			writeErrs.Add(1)
		} else {
			answers.Add(1)
		}
		return gnet.None
	}})
	mon.udp = true
	vsys.ResetAlarms()
	vsys.ResetLedger()
	vsys.PlanClear()
	defer vsys.PlanClear()
	life, err := startServer(c, mon)
	if err != nil {
		res.Inconc("c18udp: engine did not start: %v", err)
		return false
	}
	defer func() { _ = life.stop(10 * time.Second) }()
	srv, _ := net.ResolveUDPAddr("udp", life.dialAddr)
	viol := func(what, detail string) {
		res.Violate(fmt.Sprintf("C18 fault=%s:%s %s", vsys.CallName(call), errnoName(errno), what), fmt.Sprintf("udp engine, fault %s:%s@%d: %s", vsys.CallName(call), errnoName(errno), k, detail), map[string]any{"shim_log": vsys.LogTail(30)})
	}
	nclients := 4
	socks := make([]*net.UDPConn, nclients)
	for i := range socks {
		socks[i], _ = net.ListenUDP("udp", &net.UDPAddr{IP: net.IPv4(127, 0, 0, 1)})
		defer socks[i].Close()
	}
	roundTrip := func(i int, tag string) bool {
		msg := []byte(fmt.Sprintf("%s-client%d", tag, i))
		for try := 0; try < 3; try++ {
			_, _ = socks[i].WriteToUDP(msg, srv)
			_ = socks[i].SetReadDeadline(time.Now().Add(time.Second))
			buf := make([]byte, 256)
			n, _, err := socks[i].ReadFromUDP(buf)
			if err == nil && string(buf[:n]) == string(msg) {
				return true
			}
			if err == nil {
				// an older answer: drain and try again
				continue
			}
		}
		return false
	}
	for i := range socks {
		if !roundTrip(i, "warm") {
			res.Inconc("c18udp: warm-up round trip failed")
			return false
		}
	}
	vsys.PlanAdd(&vsys.Rule{Call: call, FD: -1, Class: "socket", Index: k, Action: vsys.AErrno, Errno: errno, Once: true})
	for i := range socks {
		_, _ = socks[i].WriteToUDP([]byte(fmt.Sprintf("hit-client%d", i)), srv)
	}
	fired, _ := waitCondQuick(1500*time.Millisecond, func() bool { return vsys.NFired() >= 1 })
	if !fired {
		return false
	}
	time.Sleep(5 * time.Millisecond)
	for i := range socks { // drain what came back for the "hit" round (at most one answer may be missing)
		_ = socks[i].SetReadDeadline(time.Now().Add(20 * time.Millisecond))
		buf := make([]byte, 256)
		for {
			if _, _, err := socks[i].ReadFromUDP(buf); err != nil {
				break
			}
		}
	}
	for round := 0; round < 3; round++ {
		for i := range socks {
			if !roundTrip(i, fmt.Sprintf("after%d", round)) {
				select {
				case <-life.done:
					viol("engine stopped after a datagram I/O failure", fmt.Sprintf("Run returned (%v)", life.runErr))
				default:
					viol("a sender is no longer served after a datagram I/O failure", fmt.Sprintf("client %d gets no answer (answers so far %d, failed writes %d)", i, answers.Load(), writeErrs.Load()))
				}
				return true
			}
		}
	}
	keys[fmt.Sprintf("udp|%s|%s", vsys.CallName(call), errnoName(errno))] = struct{}{}
	return true
}
