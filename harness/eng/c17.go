//go:build verif

package main

import (
	"fmt"
	"net"
	"strings"
	"sync"
	"sync/atomic"
	"time"

	"golang.org/x/sys/unix"

	gnet "github.com/panjf2000/gnet/v2"
	"github.com/panjf2000/gnet/v2/pkg/pool/byteslice"
	"github.com/panjf2000/gnet/v2/pkg/vsys"
	"github.com/panjf2000/gnet/v2/zzverif/vlib"
)

// ---- C17 (end to end): RemoteAddr / LocalAddr are reported truthfully for the whole life of a
// connection, under churn and while a legitimate heavy user of the byte pool recycles memory ------

// linkLocal returns a link-local IPv6 address of this machine with its zone, if any.
func linkLocal() (ip net.IP, zone string) {
	ifs, _ := net.Interfaces()
	for _, ifc := range ifs {
		if ifc.Flags&net.FlagUp == 0 || ifc.Flags&net.FlagLoopback != 0 {
			continue
		}
		addrs, _ := ifc.Addrs()
		for _, a := range addrs {
			if ipn, ok := a.(*net.IPNet); ok && ipn.IP.To4() == nil && ipn.IP.IsLinkLocalUnicast() {
				return ipn.IP, ifc.Name
			}
		}
	}
	return nil, ""
}

// freePort finds a currently free TCP port on host.
func freePort(network, host string) int {
	l, err := net.Listen(network, net.JoinHostPort(host, "0"))
	if err != nil {
		return 0
	}
	p := l.Addr().(*net.TCPAddr).Port
	_ = l.Close()
	return p
}

type c17Conn struct {
	claimed string // the peer's own LocalAddr, sent in-band as the first line
	checked atomic.Int64
}

// poolUser is a legitimate heavy user of the byte pool: gets small slices, fills them, puts them back.
func poolUser(stop chan struct{}, wg *sync.WaitGroup) {
	defer wg.Done()
	r := vlib.NewRand(77)
	for {
		select {
		case <-stop:
			return
		default:
		}
		var held [][]byte
		for i := 0; i < 16; i++ {
			b := byteslice.Get(r.Range(1, 16))
			for j := range b {
				b[j] = 'Z'
			}
			held = append(held, b)
		}
		for _, b := range held {
			byteslice.Put(b)
		}
		time.Sleep(20 * time.Microsecond)
	}
}

func runC17Case(sub string, seed uint64, keys map[string]struct{}) (evals int64) {
	r := vlib.NewRand(seed)
	var want struct {
		local atomic.Value // listener's bound address as the kernel reports it
	}
	var mon *monitor
	check := func(cs *connState, gc gnet.Conn, where string) {
		d := cs.sc.(*c17Conn)
		ra, la := gc.RemoteAddr(), gc.LocalAddr()
		if ra == nil || la == nil {
			mon.violate("C17 address nil inside a callback sub="+sub, fmt.Sprintf("%s: RemoteAddr=%v LocalAddr=%v", where, ra, la))
			return
		}
		if d.claimed != "" && ra.String() != d.claimed {
			mon.violate("C17 RemoteAddr differs from the address the peer connected from sub="+sub, fmt.Sprintf("%s: RemoteAddr()=%q, the peer's own LocalAddr is %q", where, ra.String(), d.claimed))
		}
		if w, _ := want.local.Load().(string); w != "" && la.String() != w {
			mon.violate("C17 LocalAddr differs from the listener's bound address sub="+sub, fmt.Sprintf("%s: LocalAddr()=%q, getsockname on the listener says %q", where, la.String(), w))
		}
		d.checked.Add(1)
		evalsAdd(&evals)
	}
	mon = newMonitor("c17", hooks{
		onOpen: func(cs *connState, gc gnet.Conn) ([]byte, gnet.Action) {
			cs.sc = &c17Conn{}
			cs.armedLocal.Store(true)
			cs.armedRemote.Store(true)
			check(cs, gc, "OnOpen")
			return nil, gnet.None
		},
		onTraffic: func(cs *connState, gc gnet.Conn) gnet.Action {
			d := cs.sc.(*c17Conn)
			b, _ := gc.Peek(-1)
			if d.claimed == "" {
				if i := strings.IndexByte(string(b), '\n'); i >= 0 {
					d.claimed = string(b[:i])
					_, _ = gc.Discard(i + 1)
				} else {
					return gnet.None // first line not complete yet (a split frame: exercises Next/Peek across reads)
				}
			}
			// a 3-byte frame decoder: Next(3) across read boundaries takes slices from the pool
			for gc.InboundBuffered() >= 3 {
				_, _ = gc.Next(3)
			}
			check(cs, gc, "OnTraffic")
			return gnet.None
		},
		onClose: func(cs *connState, gc gnet.Conn, err error) gnet.Action {
			check(cs, gc, "OnClose")
			return gnet.None
		},
	})
	c := cfg{Loops: 2, RCap: 1024, WCap: 1024, Net: "tcp"}
	var dialNet, listen, dialAddr string
	var localHost string
	switch sub {
	case "tcp4-fixed":
		p := freePort("tcp", "127.0.0.1")
		listen, dialNet, dialAddr = fmt.Sprintf("tcp://127.0.0.1:%d", p), "tcp", fmt.Sprintf("127.0.0.1:%d", p)
	case "tcp6-fixed":
		p := freePort("tcp6", "::1")
		listen, dialNet, dialAddr = fmt.Sprintf("tcp6://[::1]:%d", p), "tcp6", fmt.Sprintf("[::1]:%d", p)
	case "tcp4-port0":
		listen, dialNet = "tcp://127.0.0.1:0", "tcp"
	case "tcp6-zone-lo":
		p := freePort("tcp6", "::1")
		listen, dialNet, dialAddr = fmt.Sprintf("tcp6://[::1%%lo]:%d", p), "tcp6", fmt.Sprintf("[::1]:%d", p)
	case "tcp6-linklocal":
		ip, zone := linkLocal()
		if ip == nil {
			res.Note("c17: no link-local IPv6 address on this machine: sub-case tcp6-linklocal not exercised")
			return 0
		}
		localHost = ip.String() + "%" + zone
		p := freePort("tcp6", localHost)
		if p == 0 {
			res.Note("c17: cannot bind %s: sub-case tcp6-linklocal not exercised", localHost)
			return 0
		}
		listen, dialNet, dialAddr = fmt.Sprintf("tcp6://[%s]:%d", localHost, p), "tcp6", fmt.Sprintf("[%s]:%d", localHost, p)
	case "unix":
		up := unixPath("c17")
		listen, dialNet, dialAddr = "unix://"+up, "unix", up
		c.Net = "unix"
	}
	c.ET = r.Bool()
	el := &engineLife{cfg: c, mon: mon, addr: listen, booted: make(chan struct{}), done: make(chan struct{}), keptDup: -1}
	mon.life = el
	go func() {
		el.runErr = gnet.Run(mon, listen, c.options()...)
		el.retSeq = vsys.Seq()
		mon.noteRunReturned(el.retSeq)
		close(el.done)
	}()
	select {
	case <-el.booted:
	case <-el.done:
		res.Inconc("c17 %s: Run returned early: %v", sub, el.runErr)
		return 0
	case <-time.After(10 * time.Second):
		res.Inconc("c17 %s: no OnBoot", sub)
		return 0
	}
	defer func() { _ = el.stop(10 * time.Second) }()
	// the listener's bound address, from the kernel
	if dialNet != "unix" {
		for i := 0; i < 3000; i++ {
			fd, err := el.eng.Dup()
			if err != nil {
				time.Sleep(time.Millisecond)
				continue
			}
			vsys.Disown(fd, "Engine.Dup")
			sa, _ := unix.Getsockname(fd)
			vsys.ForeignDel(fd)
			_ = unix.Close(fd)
			switch a := sa.(type) {
			case *unix.SockaddrInet4:
				ta := &net.TCPAddr{IP: net.IP(a.Addr[:]), Port: a.Port}
				want.local.Store(ta.String())
				if dialAddr == "" {
					dialAddr = ta.String()
				}
			case *unix.SockaddrInet6:
				ta := &net.TCPAddr{IP: net.IP(a.Addr[:]), Port: a.Port}
				if a.ZoneId != 0 {
					if ifi, err := net.InterfaceByIndex(int(a.ZoneId)); err == nil {
						ta.Zone = ifi.Name
					}
				}
				if sub == "tcp6-zone-lo" {
					ta.Zone = "lo" // the kernel drops the scope of ::1; the listener was configured with %lo
				}
				want.local.Store(ta.String())
				if dialAddr == "" {
					dialAddr = ta.String()
				}
			}
			break
		}
	} else {
		want.local.Store(dialAddr)
	}
	stop := make(chan struct{})
	var pwg sync.WaitGroup
	pwg.Add(1)
	go poolUser(stop, &pwg)
	// churn: waves of short connections plus a few long-lived ones
	var wg sync.WaitGroup
	nconn := 120
	var failed atomic.Int64
	for w := 0; w < 6; w++ {
		wg.Add(1)
		go func(pr *vlib.Rand) {
			defer wg.Done()
			for i := 0; i < nconn/6; i++ {
				d := net.Dialer{Timeout: 5 * time.Second}
				if dialNet == "unix" {
					d.LocalAddr = &net.UnixAddr{Name: unixPath("peer"), Net: "unix"}
				} else if localHost != "" {
					d.LocalAddr, _ = net.ResolveTCPAddr("tcp6", "["+localHost+"]:0")
				}
				conn, err := d.Dial(dialNet, dialAddr)
				if err != nil {
					failed.Add(1)
					continue
				}
				me := conn.LocalAddr().String()
				msg := me + "\n" + strings.Repeat("abc", pr.Range(1, 30))
				// split the frame so that the handler's Next(3) straddles two reads
				cut := pr.Range(1, len(msg)-1)
				_, _ = conn.Write([]byte(msg[:cut]))
				time.Sleep(time.Duration(pr.Intn(400)) * time.Microsecond)
				_, _ = conn.Write([]byte(msg[cut:]))
				time.Sleep(time.Duration(pr.Intn(1500)) * time.Microsecond)
				_, _ = conn.Write([]byte("abcabcab"))
				time.Sleep(time.Duration(pr.Intn(800)) * time.Microsecond)
				closePeer(conn)
			}
		}(r.Fork())
	}
	wg.Wait()
	waitCond(5*time.Second, func() bool { return mon.closed.Load() >= mon.opened.Load() })
	close(stop)
	pwg.Wait()
	if f := failed.Load(); f > 0 {
		res.Inconc("c17 %s: %d dials failed", sub, f)
	}
	res.Obs("c17_connections", mon.opened.Load())
	keys["engine|"+sub] = struct{}{}
	return evals
}

func evalsAdd(p *int64) { atomic.AddInt64(p, 1) }
