//go:build verif

package main

import (
	"fmt"
	"sync"
	"sync/atomic"
	"time"

	gnet "github.com/panjf2000/gnet/v2"
	"github.com/panjf2000/gnet/v2/pkg/vsys"
	"github.com/panjf2000/gnet/v2/zzverif/vlib"
)

// connState is the monitor's per-connection record (stored as the Conn's context).
type connState struct {
	traffics       int64 // first: 64-bit atomics need 8-byte alignment on 32-bit platforms
	closeLoopCalls int64 // the loop's callback count when OnClose of this connection was entered
	tok            int64
	key            uint64 // addrKey of the peer-identifying address
	c              gnet.Conn
	fd             int
	loop           gnet.EventLoop
	loopIdx        int
	userCtx        any
	state          int32 // 0 new, 1 open, 2 closed
	opens          int32
	closes         int32
	afterClose     int32
	closeErr       error
	closeSeq       int64
	openSeq        int64
	remote         string
	local          string
	// armed close causes (set by scenarios before they cause a close)
	armedLocal  atomic.Bool
	armedRemote atomic.Bool
	// scenario data
	sc any
	mu sync.Mutex
}

// scenario hooks; nil hooks are no-ops.
type hooks struct {
	onBoot     func(e gnet.Engine) gnet.Action
	onShutdown func(e gnet.Engine)
	onOpen     func(cs *connState, c gnet.Conn) ([]byte, gnet.Action)
	onTraffic  func(cs *connState, c gnet.Conn) gnet.Action
	onClose    func(cs *connState, c gnet.Conn, err error) gnet.Action
	onTick     func() (time.Duration, gnet.Action)
	// afterPublish runs at the end of OnOpen, once the record can be found by snapshot(): a scenario that arms "all
	// connections" at some moment uses it to arm a connection whose OnOpen was still in progress at that moment
	afterPublish func(cs *connState)
	// udp: OnTraffic of connections that never had OnOpen (per-datagram transient conns)
	onDatagram func(c gnet.Conn) gnet.Action
}

type loopOwner struct {
	gid   int64
	depth int32
	calls atomic.Int64 // callbacks entered on this loop (logical time of the loop)
}

// monitor is the gnet.EventHandler given to every engine under test.
type monitor struct {
	h    hooks
	life *engineLife
	cli  *gnet.Client
	name string

	tokCtr atomic.Int64
	mu     sync.Mutex
	conns  map[int64]*connState // by token
	byKey  map[uint64]*connState

	owners sync.Map // gnet.EventLoop -> *loopOwner (confinement)
	loopG  sync.Map // gnet.EventLoop -> goroutine id seen first

	opened, closed   atomic.Int64
	boots, shutdowns atomic.Int32
	ticks            atomic.Int64
	runReturned      atomic.Int64 // seq at which Run/Client.Stop returned (0 = running)
	lateCallbacks    atomic.Int64
	maxDepth         atomic.Int32
	callbacks        atomic.Int64
	udp              bool

	evMu sync.Mutex
	ev   []string // bounded event log

	openedConns sync.Map     // gnet.Conn -> *connState: every connection object whose OnOpen has run
	inFlight    atomic.Int32 // callbacks (incl. OnTick) currently executing
	slowTick    time.Duration
}

func newMonitor(name string, h hooks) *monitor {
	return &monitor{h: h, name: name, conns: map[int64]*connState{}, byKey: map[uint64]*connState{}}
}

func (m *monitor) logf(format string, a ...any) {
	s := fmt.Sprintf("%d ", vsys.Seq()) + fmt.Sprintf(format, a...)
	m.evMu.Lock()
	if len(m.ev) >= 4000 {
		m.ev = m.ev[2000:]
	}
	m.ev = append(m.ev, s)
	m.evMu.Unlock()
}

func (m *monitor) tail(n int) []string {
	m.evMu.Lock()
	defer m.evMu.Unlock()
	if n > len(m.ev) {
		n = len(m.ev)
	}
	return append([]string(nil), m.ev[len(m.ev)-n:]...)
}

func (m *monitor) noteRunReturned(seq int64) {
	m.runReturned.Store(seq)
	if n := m.inFlight.Load(); n > 0 {
		m.violate("C06 Run returned while a callback was still executing", fmt.Sprintf("%d callbacks of the engine were in flight at the moment Run/Stop returned", n))
	}
}

func (m *monitor) violate(sig, detail string) {
	res.Violate(sig, detail, map[string]any{"engine": m.name, "config": m.cfgString(), "events": m.tail(60)})
}

func (m *monitor) cfgString() string {
	if m.life != nil {
		return m.life.cfg.String()
	}
	return m.name
}

// enter/leave implement the confinement check: callbacks of one loop never overlap and
// always run on the same goroutine.
func (m *monitor) enter(loop gnet.EventLoop, what string) (gid int64, ok bool) {
	m.callbacks.Add(1)
	m.inFlight.Add(1)
	if rs := m.runReturned.Load(); rs != 0 {
		m.lateCallbacks.Add(1)
		m.violate("C06 callback after Run returned kind="+what, fmt.Sprintf("%s ran after Run/Stop had returned (return seq %d)", what, rs))
	}
	if loop == nil {
		return 0, true
	}
	gid = vlib.GoID()
	v, _ := m.owners.LoadOrStore(loop, &loopOwner{})
	o := v.(*loopOwner)
	o.calls.Add(1)
	g0 := atomic.LoadInt64(&o.gid)
	switch {
	case g0 == 0:
		if !atomic.CompareAndSwapInt64(&o.gid, 0, gid) {
			m.violate("C05 callbacks of one loop overlap", fmt.Sprintf("%s entered while another goroutine (%d) is inside a callback of the same loop (this goroutine %d)", what, atomic.LoadInt64(&o.gid), gid))
			return gid, false
		}
		atomic.StoreInt32(&o.depth, 1)
	case g0 == gid:
		d := atomic.AddInt32(&o.depth, 1)
		for {
			md := m.maxDepth.Load()
			if d <= md || m.maxDepth.CompareAndSwap(md, d) {
				break
			}
		}
	default:
		m.violate("C05 callbacks of one loop overlap", fmt.Sprintf("%s entered on goroutine %d while goroutine %d is inside a callback of the same loop", what, gid, g0))
		return gid, false
	}
	if prev, loaded := m.loopG.LoadOrStore(loop, gid); loaded && prev.(int64) != gid {
		m.violate("C05 loop callbacks ran on two goroutines", fmt.Sprintf("%s: loop ran callbacks on goroutine %d earlier and on %d now", what, prev.(int64), gid))
	}
	return gid, true
}

func (m *monitor) leave(loop gnet.EventLoop, ok bool) {
	m.inFlight.Add(-1)
	if loop == nil || !ok {
		return
	}
	v, _ := m.owners.Load(loop)
	o := v.(*loopOwner)
	if atomic.AddInt32(&o.depth, -1) == 0 {
		atomic.StoreInt64(&o.gid, 0)
	}
}

// inCallback wraps callbacks issued by scenarios (async callbacks, runnables) so that they
// take part in the confinement check.
func (m *monitor) inCallback(c gnet.Conn, what string, f func()) {
	var loop gnet.EventLoop
	if cs, ok := ctxState(c); ok {
		loop = cs.loop
	} else if c != nil {
		loop = c.EventLoop()
	}
	_, ok := m.enter(loop, what)
	defer m.leave(loop, ok)
	if cs, ok2 := ctxState(c); ok2 && loop != nil && c != nil && c.EventLoop() != cs.loop {
		m.violate("C05 connection changed loops", fmt.Sprintf("%s: connection %d reports a different event loop than at OnOpen", what, cs.tok))
	}
	f()
}

func ctxState(c gnet.Conn) (*connState, bool) {
	if c == nil {
		return nil, false
	}
	cs, ok := c.Context().(*connState)
	return cs, ok
}

// stateOf finds a connection's record without touching the Conn (Context is not among the calls that are safe from
// other goroutines).
func (m *monitor) stateOf(c gnet.Conn) *connState {
	if v, ok := m.openedConns.Load(c); ok {
		if cs, ok := v.(*connState); ok {
			return cs
		}
	}
	return nil
}

// loopCalls is the number of callbacks entered so far on a loop: once it has grown past the value recorded inside a
// callback, that callback - and the framework function that invoked it - has returned.
func (m *monitor) loopCalls(loop gnet.EventLoop) int64 {
	if v, ok := m.owners.Load(loop); ok {
		return v.(*loopOwner).calls.Load()
	}
	return 0
}

// loopCallsAll returns the callback counts of all loops seen so far.
func (m *monitor) loopCallsAll() map[gnet.EventLoop]int64 {
	out := map[gnet.EventLoop]int64{}
	m.owners.Range(func(k, v any) bool {
		out[k.(gnet.EventLoop)] = v.(*loopOwner).calls.Load()
		return true
	})
	return out
}

func (m *monitor) OnBoot(e gnet.Engine) gnet.Action {
	m.boots.Add(1)
	m.logf("OnBoot")
	if m.life != nil {
		m.life.eng = e
		select {
		case <-m.life.booted:
		default:
			close(m.life.booted)
		}
	}
	if m.h.onBoot != nil {
		return m.h.onBoot(e)
	}
	return gnet.None
}

func (m *monitor) OnShutdown(e gnet.Engine) {
	n := m.shutdowns.Add(1)
	m.logf("OnShutdown #%d", n)
	if n > 1 {
		m.violate("C06 OnShutdown invoked more than once", fmt.Sprintf("OnShutdown invocation #%d", n))
	}
	if m.h.onShutdown != nil {
		m.h.onShutdown(e)
	}
}

func (m *monitor) OnOpen(c gnet.Conn) (out []byte, action gnet.Action) {
	loop := c.EventLoop()
	_, ok := m.enter(loop, "OnOpen")
	defer m.leave(loop, ok)
	if old, isOld := c.Context().(*connState); isOld {
		// OnOpen for a connection object that already went through OnOpen
		n := atomic.AddInt32(&old.opens, 1)
		m.violate("C04 OnOpen more than once", fmt.Sprintf("connection %d: OnOpen #%d (state %d)", old.tok, n, atomic.LoadInt32(&old.state)))
		return nil, gnet.None
	}
	cs := &connState{tok: m.tokCtr.Add(1), c: c, fd: c.Fd(), loop: loop, loopIdx: gnet.VerifLoopIndex(c), userCtx: c.Context(), openSeq: vsys.Seq()}
	if ra := c.RemoteAddr(); ra != nil {
		cs.remote = ra.String()
	}
	if la := c.LocalAddr(); la != nil {
		cs.local = la.String()
	}
	peerID := cs.remote
	if m.cli != nil || (m.life != nil && m.life.cfg.Client) {
		peerID = cs.local // client role: the harness side sees our local address as its remote
	}
	cs.key = addrKey(peerID)
	if k, ok := cs.userCtx.(uint64); ok { // the harness chose the key (client role: Dial/Enroll context)
		cs.key = k
	}
	cs.opens = 1
	atomic.StoreInt32(&cs.state, 1)
	c.SetContext(cs)
	m.openedConns.Store(c, cs)
	m.logf("OnOpen tok=%d fd=%d loop=%d remote=%s local=%s", cs.tok, cs.fd, cs.loopIdx, cs.remote, cs.local)
	if m.h.onOpen != nil {
		out, action = m.h.onOpen(cs, c)
	}
	// published only now, so that whoever finds the record also finds the scenario's data
	m.mu.Lock()
	m.conns[cs.tok] = cs
	m.byKey[cs.key] = cs
	m.mu.Unlock()
	if m.h.afterPublish != nil {
		m.h.afterPublish(cs)
	}
	m.opened.Add(1)
	return out, action
}

func (m *monitor) OnTraffic(c gnet.Conn) gnet.Action {
	loop := c.EventLoop()
	_, ok := m.enter(loop, "OnTraffic")
	defer m.leave(loop, ok)
	cs, has := ctxState(c)
	if !has {
		if m.udp && m.h.onDatagram != nil {
			return m.h.onDatagram(c)
		}
		m.violate("C04 OnTraffic without OnOpen", fmt.Sprintf("OnTraffic for a connection (fd %d) whose OnOpen was never seen (context %T)", c.Fd(), c.Context()))
		return gnet.None
	}
	if st := atomic.LoadInt32(&cs.state); st != 1 {
		atomic.AddInt32(&cs.afterClose, 1)
		m.violate("C04 OnTraffic after OnClose", fmt.Sprintf("connection %d (fd %d): OnTraffic in state %d (close seq %d)", cs.tok, cs.fd, st, cs.closeSeq))
		return gnet.None
	}
	if c.EventLoop() != cs.loop {
		m.violate("C05 connection changed loops", fmt.Sprintf("connection %d: OnTraffic on a different event loop than OnOpen", cs.tok))
	}
	atomic.AddInt64(&cs.traffics, 1)
	if m.h.onTraffic != nil {
		return m.h.onTraffic(cs, c)
	}
	return gnet.None
}

func (m *monitor) OnClose(c gnet.Conn, err error) gnet.Action {
	loop := c.EventLoop()
	_, ok := m.enter(loop, "OnClose")
	defer m.leave(loop, ok)
	cs, has := ctxState(c)
	if !has {
		m.violate("C04 OnClose without OnOpen", fmt.Sprintf("OnClose(err=%v) for a connection (fd %d) whose OnOpen was never seen", err, c.Fd()))
		return gnet.None
	}
	n := atomic.AddInt32(&cs.closes, 1)
	if n > 1 || atomic.LoadInt32(&cs.state) != 1 {
		m.violate("C04 OnClose more than once", fmt.Sprintf("connection %d (fd %d): OnClose #%d err=%v (first close err=%v)", cs.tok, cs.fd, n, err, cs.closeErr))
		return gnet.None
	}
	if c.EventLoop() != cs.loop {
		m.violate("C05 connection changed loops", fmt.Sprintf("connection %d: OnClose on a different event loop than OnOpen", cs.tok))
	}
	cs.closeErr = err
	cs.closeSeq = vsys.Seq()
	atomic.StoreInt64(&cs.closeLoopCalls, m.loopCalls(loop))
	m.logf("OnClose tok=%d fd=%d err=%v", cs.tok, cs.fd, err)
	var act gnet.Action
	if m.h.onClose != nil {
		act = m.h.onClose(cs, c, err)
	}
	atomic.StoreInt32(&cs.state, 2)
	m.closed.Add(1)
	return act
}

func (m *monitor) OnTick() (time.Duration, gnet.Action) {
	if rs := m.runReturned.Load(); rs != 0 {
		m.lateCallbacks.Add(1)
		m.violate("C06 callback after Run returned kind=OnTick", fmt.Sprintf("OnTick ran after Run/Stop had returned (return seq %d)", rs))
	}
	m.ticks.Add(1)
	m.inFlight.Add(1)
	defer m.inFlight.Add(-1)
	if m.slowTick > 0 {
		time.Sleep(m.slowTick) // a tick that takes a while, so that shutdown usually meets one in flight
	}
	if m.h.onTick != nil {
		return m.h.onTick()
	}
	return 50 * time.Millisecond, gnet.None
}

// snapshot returns all connection records.
func (m *monitor) snapshot() []*connState {
	m.mu.Lock()
	defer m.mu.Unlock()
	out := make([]*connState, 0, len(m.conns))
	for _, cs := range m.conns {
		out = append(out, cs)
	}
	return out
}

func (m *monitor) lookupKey(k uint64) *connState {
	m.mu.Lock()
	defer m.mu.Unlock()
	return m.byKey[k]
}

// lifecycleSummary checks, after the engine returned, that every opened connection got
// exactly one OnClose before the return.
func (m *monitor) lifecycleSummary(retSeq int64) {
	for _, cs := range m.snapshot() {
		if atomic.LoadInt32(&cs.closes) == 0 {
			m.violate("C06 connection without OnClose at engine return", fmt.Sprintf("connection %d (fd %d, remote %s) was opened but never closed before Run/Stop returned", cs.tok, cs.fd, cs.remote))
		} else if retSeq != 0 && cs.closeSeq > retSeq {
			m.violate("C06 OnClose after engine return", fmt.Sprintf("connection %d OnClose at seq %d, engine returned at %d", cs.tok, cs.closeSeq, retSeq))
		}
	}
}
