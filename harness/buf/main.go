//go:build verif

// Harness buf decides C09 (ring.Buffer), C10 (elastic.RingBuffer, elastic.Buffer) and C11
// (linkedlist.Buffer): seed-generated operation sequences over the public API, each operation
// checked against a plain FIFO reference model; plus a breadth-first sweep of small rings.
package main

import (
	"encoding/json"
	"fmt"
	"io"
	"os"
	"sync"

	"github.com/panjf2000/gnet/v2/zzverif/vlib"
)

type stepper interface {
	step(r *vlib.Rand) (desc, key string, f *failure)
}

var propOf = map[string]string{"ring": "C09", "sweep": "C09", "eringbuf": "C10", "elastic": "C10", "list": "C11"}

func typeName(typ string) string {
	switch typ {
	case "ring":
		return "ring.Buffer"
	case "eringbuf":
		return "elastic.RingBuffer"
	case "elastic":
		return "elastic.Buffer"
	}
	return "linkedlist.Buffer"
}

func pickParam(typ string, r *vlib.Rand) int {
	switch typ {
	case "ring":
		return r.Pick(0, 0, 1, 2, 3, 4, 8, 16, 64, 1000, 1024, 2048, 4095, 4096, 4097, 8192, 10000)
	case "elastic":
		return r.Pick(1, 2, 7, 64, 1000, 1024, 1025, 2048, 4096, 5000, 65536)
	}
	return 0
}

func newStepper(typ string, param int, key uint64) stepper {
	switch typ {
	case "ring", "eringbuf":
		return newRingMon(typ, param, key)
	case "elastic":
		return newElMon(param, key)
	}
	return newListMon(key)
}

// runSeq runs one sequence; returns ops executed and keys seen.
func runSeq(res *vlib.Result, typ string, seqSeed uint64, keys map[string]struct{}) (ops int) {
	r := vlib.NewRand(seqSeed)
	param := pickParam(typ, r)
	st := newStepper(typ, param, seqSeed)
	length := r.Pick(5, 10, 20, 40, 80, 200)
	var trace []string
	for i := 0; i < length; i++ {
		desc, key, f := st.step(r)
		ops++
		if len(trace) < 400 {
			trace = append(trace, desc)
		}
		if f != nil {
			parts := splitKey(key)
			sig := fmt.Sprintf("%s %s.%s %s pre=%s arg=%s", propOf[typ], typeName(typ), parts[1], f.kind, parts[2], parts[3])
			res.Violate(sig, f.detail, map[string]any{"type": typ, "param": param, "seq_seed": seqSeed, "ops": trace})
			return
		}
		keys[key] = struct{}{}
	}
	return
}

func splitKey(k string) [4]string {
	var out [4]string
	j := 0
	cur := ""
	for _, c := range k {
		if c == '|' && j < 3 {
			out[j] = cur
			cur = ""
			j++
			continue
		}
		cur += string(c)
	}
	out[j] = cur
	return out
}

func main() {
	res := vlib.Start("buf")
	typ := *vlib.FlagMode
	if typ == "" {
		typ = "ring"
	}
	if *vlib.FlagRep != "" {
		var w struct {
			Type    string `json:"type"`
			SeqSeed uint64 `json:"seq_seed"`
		}
		b, _ := os.ReadFile(*vlib.FlagRep)
		if err := json.Unmarshal(b, &w); err == nil && w.Type != "" {
			keys := map[string]struct{}{}
			if w.Type == "sweep" {
				sweep(res, 1)
			} else {
				runSeq(res, w.Type, w.SeqSeed, keys)
			}
			res.Eval(1)
			res.Finish()
		}
	}
	if typ == "sweep" {
		sweep(res, 0)
		res.Finish()
	}
	nops := 2_000_000
	if res.Thorough() {
		nops = 60_000_000
	}
	if *vlib.FlagN > 0 {
		nops = *vlib.FlagN
	}
	workers := 12
	var wg sync.WaitGroup
	var mu sync.Mutex
	allKeys := map[string]struct{}{}
	root := vlib.NewRand(res.Seed ^ vlib.Mix(uint64(len(typ))*131+uint64(typ[0])))
	for w := 0; w < workers; w++ {
		wr := root.Fork()
		wg.Add(1)
		go func(w int) {
			defer wg.Done()
			keys := map[string]struct{}{}
			done := 0
			seqs := 0
			for done < nops/workers {
				seqSeed := wr.U64()
				done += runSeq(res, typ, seqSeed, keys)
				seqs++
				if res.NViolations() >= 150 || res.TimeUp() {
					break
				}
			}
			res.Eval(int64(done))
			res.Obs("sequences:"+typ, int64(seqs))
			res.Obs("operations:"+typ, int64(done))
			mu.Lock()
			for k := range keys {
				allKeys[k] = struct{}{}
			}
			mu.Unlock()
		}(w)
	}
	wg.Wait()
	for k := range allKeys {
		res.Distinct(k)
	}
	// a sample sequence, written out
	{
		r := vlib.NewRand(res.Seed)
		st := newStepper(typ, pickParam(typ, r), res.Seed)
		var tr []string
		for i := 0; i < 12; i++ {
			d, _, _ := st.step(r)
			tr = append(tr, d)
		}
		res.Sample(map[string]any{"type": typeName(typ), "ops": tr})
	}
	_ = io.EOF
	res.Finish()
}
