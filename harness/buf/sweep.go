//go:build verif

package main

import (
	"fmt"
	"io"

	"github.com/panjf2000/gnet/v2/zzverif/vlib"
)

type specGen struct {
	name string
	mk   func(size, have int) opSpec
}

func sweepOps() []specGen {
	var out []specGen
	args := []struct {
		n string
		f func(size, have int) int
	}{
		{"0", func(s, h int) int { return 0 }},
		{"1", func(s, h int) int { return 1 }},
		{"cap-1", func(s, h int) int { return s - 1 }},
		{"cap", func(s, h int) int { return s }},
		{"cap+1", func(s, h int) int { return s + 1 }},
		{"avail", func(s, h int) int { return s - h }},
		{"avail+1", func(s, h int) int { return s - h + 1 }},
	}
	for _, a := range args {
		a := a
		for _, op := range []struct {
			name string
			op   int
		}{{"Write", 0}, {"Read", 5}, {"Peek", 8}, {"Discard", 10}} {
			op := op
			out = append(out, specGen{op.name + "(" + a.n + ")", func(s, h int) opSpec { return opSpec{op: op.op, n: a.f(s, h)} }})
		}
	}
	out = append(out,
		specGen{"WriteByte", func(s, h int) opSpec { return opSpec{op: 4} }},
		specGen{"ReadByte", func(s, h int) opSpec { return opSpec{op: 7} }},
		specGen{"Bytes", func(s, h int) opSpec { return opSpec{op: 12} }},
		specGen{"Peek(-1)", func(s, h int) opSpec { return opSpec{op: 8, n: -1} }},
	)
	readers := []struct {
		name  string
		steps []rstep
	}{
		{"empty", []rstep{{0, io.EOF}}},
		{"1,eof", []rstep{{1, nil}, {0, io.EOF}}},
		{"full,eof", []rstep{{-1, nil}, {0, io.EOF}}},
		{"1,1,eof", []rstep{{1, nil}, {1, nil}, {0, io.EOF}}},
		{"1+eof", []rstep{{1, io.EOF}}},
		{"0nil,1,eof", []rstep{{0, nil}, {1, nil}, {0, io.EOF}}},
		{"2+err", []rstep{{2, errInjected}}},
	}
	for _, rd := range readers {
		rd := rd
		out = append(out, specGen{"ReadFrom(" + rd.name + ")", func(s, h int) opSpec {
			return opSpec{op: 13, hr: &hostileReader{steps: append([]rstep(nil), rd.steps...), class: rd.name}}
		}})
	}
	writers := []struct {
		name  string
		steps []wstep
	}{
		{"all", nil},
		{"short1", []wstep{{1, errInjected}}},
		{"full,short1", []wstep{{-1, nil}, {1, errInjected}}},
		{"zero-err", []wstep{{0, errInjected}}},
	}
	for _, wr := range writers {
		wr := wr
		out = append(out, specGen{"WriteTo(" + wr.name + ")", func(s, h int) opSpec {
			return opSpec{op: 14, hw: &hostileWriter{steps: append([]wstep(nil), wr.steps...), class: wr.name}}
		}})
	}
	return out
}

type swState struct {
	r, w, size int
	empty      bool
}

// sweep explores, breadth-first, every (r, w, isEmpty, size) state reachable from ring.New(c)
// for c in {2,4,8} through the operation set above, applying every operation in every state.
func sweep(res *vlib.Result, replayOnly int) {
	ops := sweepOps()
	var totalStates, totalTrans int64
	for _, c0 := range []int{2, 4, 8} {
		maxSize := 4*c0 + 2
		type node struct {
			path []int // indexes into ops
		}
		seen := map[swState]*node{}
		rebuild := func(path []int) *ringMon {
			rm := newRingMon("ring", c0, uint64(c0)*7919)
			for _, oi := range path {
				_, _, sz, _ := rm.raw.VerifState()
				sp := ops[oi].mk(sz, len(rm.m))
				if sp.hr != nil {
					sp.hr.src = rm.src
				}
				rm.apply(sp)
			}
			return rm
		}
		stateOf := func(rm *ringMon) swState {
			r, w, sz, e := rm.raw.VerifState()
			return swState{r, w, sz, e}
		}
		root := rebuild(nil)
		seen[stateOf(root)] = &node{}
		queue := []swState{stateOf(root)}
		for len(queue) > 0 && len(seen) < 60000 {
			cur := queue[0]
			queue = queue[1:]
			nd := seen[cur]
			for oi := range ops {
				rm := rebuild(nd.path)
				_, _, sz, _ := rm.raw.VerifState()
				sp := ops[oi].mk(sz, len(rm.m))
				if sp.hr != nil {
					sp.hr.src = rm.src
				}
				_, key, f := rm.apply(sp)
				totalTrans++
				if f != nil {
					parts := splitKey(key)
					sig := fmt.Sprintf("C09 ring.Buffer.%s %s pre=%s arg=%s", parts[1], f.kind, parts[2], parts[3])
					var tr []string
					for _, pi := range nd.path {
						tr = append(tr, ops[pi].name)
					}
					tr = append(tr, ops[oi].name)
					res.Violate(sig, fmt.Sprintf("ring.New(%d), ops %v: %s (state before the last op: r=%d w=%d size=%d empty=%v)", c0, tr, f.detail, cur.r, cur.w, cur.size, cur.empty),
						map[string]any{"type": "sweep", "cap": c0, "ops": tr})
					continue // a diverged buffer's successor state is not explored
				}
				res.Distinct("sweep|" + key)
				ns := stateOf(rm)
				if ns.size > maxSize {
					continue
				}
				if _, ok := seen[ns]; !ok {
					seen[ns] = &node{path: append(append([]int(nil), nd.path...), oi)}
					queue = append(queue, ns)
				}
			}
		}
		totalStates += int64(len(seen))
		res.Obs(fmt.Sprintf("sweep_states_cap%d", c0), int64(len(seen)))
	}
	res.Obs("sweep_states", totalStates)
	res.Obs("sweep_transitions", totalTrans)
	res.Eval(totalTrans)
	res.Sample(map[string]any{"sweep": "BFS over (r,w,isEmpty,size) from ring.New(2|4|8); every op in every state", "ops": len(ops)})
	_ = replayOnly
}
