//go:build verif

package main

import (
	"bytes"
	"fmt"
	"io"

	"github.com/panjf2000/gnet/v2/pkg/buffer/elastic"
	"github.com/panjf2000/gnet/v2/pkg/buffer/ring"
	"github.com/panjf2000/gnet/v2/zzverif/vlib"
)

type ringAPI interface {
	Peek(n int) ([]byte, []byte)
	Discard(n int) (int, error)
	Read(p []byte) (int, error)
	ReadByte() (byte, error)
	Write(p []byte) (int, error)
	WriteByte(c byte) error
	WriteString(s string) (int, error)
	Buffered() int
	Cap() int
	Available() int
	Bytes() []byte
	ReadFrom(r io.Reader) (int64, error)
	WriteTo(w io.Writer) (int64, error)
	IsFull() bool
	IsEmpty() bool
	Reset()
}

// ringMon drives one ring buffer against a []byte FIFO model.
type ringMon struct {
	typ   string // "ring" (C09) or "eringbuf" (C10, elastic.RingBuffer)
	b     ringAPI
	raw   *ring.Buffer // non-nil for typ "ring": state classification
	m     []byte
	src   *source
	param int
	nchk  int
}

func newRingMon(typ string, size int, key uint64) *ringMon {
	rm := &ringMon{typ: typ, src: &source{key: key}, param: size}
	if typ == "ring" {
		rm.raw = ring.New(size)
		rm.b = rm.raw
	} else {
		rm.b = &elastic.RingBuffer{}
	}
	return rm
}

func (rm *ringMon) pre() string {
	size := rm.b.Cap()
	big := ""
	if size >= 4096 {
		big = "+big"
	}
	if rm.raw != nil {
		r, w, sz, empty := rm.raw.VerifState()
		switch {
		case sz == 0:
			return "zero"
		case empty:
			return "empty" + big
		case r == w:
			return "full" + big
		case w > r:
			if r == 0 {
				return "linear0" + big
			}
			return "linear" + big
		default:
			return "wrapped" + big
		}
	}
	switch {
	case size == 0:
		return "nil"
	case len(rm.m) == 0:
		return "empty" + big
	case len(rm.m) == size:
		return "full" + big
	}
	return "partial" + big
}

func sizeClass(n, have, capv int) string {
	switch {
	case n < 0:
		return "neg"
	case n == 0:
		return "0"
	case n == 1:
		return "1"
	case n == have:
		return "=buffered"
	case n == have+1:
		return "buffered+1"
	case n == capv-have:
		return "=available"
	case n == capv-have+1:
		return "available+1"
	case n < have:
		return "<buffered"
	case n > capv:
		return ">cap"
	}
	return "other"
}

func (rm *ringMon) pickSize(r *vlib.Rand) int {
	n := rm.pickSize0(r)
	if n > 100000 { // keep memory bounded: capacities double when written past
		n = r.Range(1, 100000)
	}
	return n
}

func (rm *ringMon) pickSize0(r *vlib.Rand) int {
	have, capv := len(rm.m), rm.b.Cap()
	avail := capv - have
	switch r.Intn(14) {
	case 0:
		return 0
	case 1:
		return 1
	case 2:
		return have
	case 3:
		return have + 1
	case 4:
		if have > 0 {
			return have - 1
		}
		return 1
	case 5:
		return avail
	case 6:
		return avail + 1
	case 7:
		if avail > 1 {
			return avail - 1
		}
		return 2
	case 8:
		return capv
	case 9:
		return capv + 1
	case 10:
		return r.Pick(4095, 4096, 4097, 1023, 1024, 1025, 511, 512, 513)
	case 11:
		return r.Range(1, 64)
	case 12:
		if capv > 0 {
			return r.Range(1, 2*capv)
		}
		return r.Range(1, 2048)
	default:
		return r.Range(1, 9000)
	}
}

func (rm *ringMon) invariants() *failure {
	b := rm.b
	if got := b.Buffered(); got != len(rm.m) {
		return failf("invariant:Buffered", "Buffered()=%d, model holds %d bytes", got, len(rm.m))
	}
	if b.Buffered()+b.Available() != b.Cap() {
		return failf("invariant:Buffered+Available=Cap", "Buffered()=%d Available()=%d Cap()=%d", b.Buffered(), b.Available(), b.Cap())
	}
	if b.IsEmpty() != (len(rm.m) == 0) {
		return failf("invariant:IsEmpty", "IsEmpty()=%v, model holds %d bytes", b.IsEmpty(), len(rm.m))
	}
	if b.Cap() > 0 && b.IsFull() != (b.Available() == 0) {
		return failf("invariant:IsFull", "IsFull()=%v Available()=%d Cap()=%d", b.IsFull(), b.Available(), b.Cap())
	}
	return nil
}

func (rm *ringMon) checkContent() *failure {
	rm.nchk++
	if len(rm.m) > 8192 && rm.nchk%16 != 0 {
		// big buffer: compare only the ends most of the time (full comparison every 16th operation)
		h, t := rm.b.Peek(-1)
		if len(h)+len(t) != len(rm.m) {
			return failf("content", "Peek(-1) returned %d bytes, model holds %d", len(h)+len(t), len(rm.m))
		}
		at := func(i int) byte {
			if i < len(h) {
				return h[i]
			}
			return t[i-len(h)]
		}
		for i := 0; i < 64; i++ {
			if at(i) != rm.m[i] || at(len(rm.m)-1-i) != rm.m[len(rm.m)-1-i] {
				return failf("content", "content differs from the model near an end (offset %d from the front or back)", i)
			}
		}
		return nil
	}
	h, t := rm.b.Peek(-1)
	got := append(append([]byte(nil), h...), t...)
	if d := firstDiff(got, rm.m); d >= 0 {
		return failf("content", "content differs from the model at offset %d: have %s.. want %s.. (len %d vs %d)", d, hexHead(got[min(d, len(got)):]), hexHead(rm.m[min(d, len(rm.m)):]), len(got), len(rm.m))
	}
	return nil
}

// opSpec is one fully determined operation.
type opSpec struct {
	op int
	n  int
	hr *hostileReader
	hw *hostileWriter
}

// step performs one random operation. Returns its description, the classification key and a failure.
func (rm *ringMon) step(r *vlib.Rand) (desc, key string, f *failure) {
	sp := opSpec{op: r.Intn(16), n: rm.pickSize(r)}
	if len(rm.m) > 1<<20 { // keep memory bounded
		sp = opSpec{op: 10, n: len(rm.m) - r.Intn(64)}
	}
	switch sp.op {
	case 8, 9:
		if r.Intn(4) == 0 {
			sp.n = -r.Intn(2)
		}
	case 13:
		sp.hr = genReader(r, rm.src, rm.b.Cap())
	case 14:
		sp.hw = genWriter(r)
	case 15:
		if r.Intn(4) != 0 {
			sp.op = 16 // Check only
		}
	}
	return rm.apply(sp)
}

// apply performs one operation and checks it against the model.
func (rm *ringMon) apply(sp opSpec) (desc, key string, f *failure) {
	pre := rm.pre()
	b := rm.b
	op, n := sp.op, sp.n
	have, capv := len(rm.m), b.Cap()
	var opname, argc string
	panicked, msg := vlib.Catch(func() {
		switch op {
		case 0, 1, 2: // Write
			opname, argc = "Write", sizeClass(n, have, capv)
			desc = fmt.Sprintf("Write(%d)", n)
			p := rm.src.take(n)
			q := append([]byte(nil), p...)
			got, err := b.Write(q)
			if got != n || err != nil {
				f = failf("count", "Write(%d bytes) returned (%d,%v)", n, got, err)
				return
			}
			rm.m = append(rm.m, p...)
		case 3: // WriteString
			opname, argc = "WriteString", sizeClass(n, have, capv)
			desc = fmt.Sprintf("WriteString(%d)", n)
			p := rm.src.take(n)
			got, err := b.WriteString(string(p))
			if got != n || err != nil {
				f = failf("count", "WriteString(%d bytes) returned (%d,%v)", n, got, err)
				return
			}
			rm.m = append(rm.m, p...)
		case 4: // WriteByte
			opname, argc = "WriteByte", "1"
			desc = "WriteByte"
			p := rm.src.take(1)
			if err := b.WriteByte(p[0]); err != nil {
				f = failf("err", "WriteByte returned %v", err)
				return
			}
			rm.m = append(rm.m, p[0])
		case 5, 6: // Read
			opname, argc = "Read", sizeClass(n, have, capv)
			desc = fmt.Sprintf("Read(%d)", n)
			p := make([]byte, n)
			got, err := b.Read(p)
			want := min(n, have)
			if got != want {
				f = failf("count", "Read(len %d) returned (%d,%v) with %d buffered", n, got, err, have)
				return
			}
			if n > 0 && have == 0 && err == nil {
				f = failf("err", "Read on an empty buffer returned (0,nil)")
				return
			}
			if want > 0 && err != nil {
				f = failf("err", "Read(len %d) of %d buffered bytes returned error %v", n, have, err)
				return
			}
			if d := firstDiff(p[:got], rm.m[:want]); d >= 0 {
				f = failf("content", "Read returned wrong bytes at offset %d: %s want %s", d, hexHead(p[d:got]), hexHead(rm.m[d:want]))
				return
			}
			rm.m = rm.m[want:]
		case 7: // ReadByte
			opname, argc = "ReadByte", "1"
			desc = "ReadByte"
			c, err := b.ReadByte()
			if have == 0 {
				if err == nil {
					f = failf("err", "ReadByte on an empty buffer returned (%d,nil)", c)
				}
				return
			}
			if err != nil || c != rm.m[0] {
				f = failf("content", "ReadByte returned (%#x,%v), want %#x", c, err, rm.m[0])
				return
			}
			rm.m = rm.m[1:]
		case 8, 9: // Peek
			opname, argc = "Peek", sizeClass(n, have, capv)
			desc = fmt.Sprintf("Peek(%d)", n)
			h, t := b.Peek(n)
			want := have
			if n > 0 && n < have {
				want = n
			}
			got := append(append([]byte(nil), h...), t...)
			if d := firstDiff(got, rm.m[:want]); d >= 0 {
				f = failf("content", "Peek(%d) with %d buffered returned %d bytes, first difference at %d: %s want %s", n, have, len(got), d, hexHead(got[min(d, len(got)):]), hexHead(rm.m[min(d, want):want]))
				return
			}
		case 10, 11: // Discard
			opname, argc = "Discard", sizeClass(n, have, capv)
			desc = fmt.Sprintf("Discard(%d)", n)
			got, err := b.Discard(n)
			want := min(max(n, 0), have)
			if got != want {
				f = failf("count", "Discard(%d) with %d buffered returned (%d,%v)", n, have, got, err)
				return
			}
			rm.m = rm.m[want:]
		case 12: // Bytes
			opname, argc = "Bytes", "-"
			desc = "Bytes"
			got := b.Bytes()
			if d := firstDiff(got, rm.m); d >= 0 {
				f = failf("content", "Bytes() differs from the model at offset %d (len %d vs %d)", d, len(got), len(rm.m))
				return
			}
			for i := range got { // the caller may scribble over the copy
				got[i] = 0xEE
			}
		case 13: // ReadFrom
			hr := sp.hr
			opname, argc = "ReadFrom", "reader="+hr.class
			desc = fmt.Sprintf("ReadFrom(%s %v)", hr.class, hr.steps)
			got, err := b.ReadFrom(hr)
			rm.m = append(rm.m, hr.delivered...)
			if got != int64(len(hr.delivered)) {
				f = failf("count", "ReadFrom reported %d bytes, the reader delivered %d (err %v)", got, len(hr.delivered), err)
				return
			}
			last := hr.steps[len(hr.steps)-1].err
			if hr.i >= len(hr.steps) && last == errInjected && err == nil {
				f = failf("err", "ReadFrom swallowed the reader's error")
				return
			}
		case 14: // WriteTo
			hw := sp.hw
			opname, argc = "WriteTo", "writer="+hw.class
			desc = fmt.Sprintf("WriteTo(%s)", hw.class)
			got, err := b.WriteTo(hw)
			if have == 0 {
				if got != 0 || len(hw.accepted) != 0 {
					f = failf("count", "WriteTo on an empty buffer wrote %d bytes", got)
				}
				return
			}
			acc := hw.accepted
			if len(acc) > have || !bytes.Equal(acc, rm.m[:len(acc)]) {
				f = failf("content", "WriteTo handed the writer bytes that are not the buffer's front (accepted %d, buffered %d, first difference at %d)", len(acc), have, firstDiff(acc, rm.m[:min(len(acc), have)]))
				return
			}
			if got != int64(len(acc)) {
				f = failf("count", "WriteTo reported %d, the writer accepted %d", got, len(acc))
				return
			}
			rm.m = rm.m[len(acc):]
			if !hw.gotErr && len(rm.m) != 0 {
				f = failf("count", "WriteTo stopped after %d of %d bytes although the writer accepted everything (err %v)", len(acc), have, err)
				return
			}
			if hw.gotErr && err == nil {
				f = failf("err", "WriteTo swallowed the writer's error")
				return
			}
			if !hw.gotErr && err != nil {
				f = failf("err", "WriteTo returned %v although the writer accepted everything", err)
				return
			}
		case 15: // Reset (rare)
			opname, argc = "Reset", "-"
			desc = "Reset"
			b.Reset()
			rm.m = rm.m[:0]
		case 16: // Reset destroys interesting states, so mostly only the invariants are checked
			opname, argc, desc = "Check", "-", "Check"
		}
	})
	key = rm.typ + "|" + opname + "|" + pre + "|" + argc
	if panicked {
		return desc, key, &failure{kind: "panic=" + vlib.PanicClass(msg), detail: desc + " panicked: " + msg}
	}
	if f != nil {
		return
	}
	if p2, msg2 := vlib.Catch(func() {
		if f = rm.invariants(); f == nil {
			f = rm.checkContent()
		}
	}); p2 {
		f = &failure{kind: "panic=" + vlib.PanicClass(msg2), detail: "accessor panicked after " + desc + ": " + msg2}
	} else if f != nil {
		f.detail = "after " + desc + ": " + f.detail
	}
	return
}

func min(a, b int) int {
	if a < b {
		return a
	}
	return b
}

func max(a, b int) int {
	if a > b {
		return a
	}
	return b
}
