//go:build verif

package main

import (
	"bytes"
	"fmt"

	"github.com/panjf2000/gnet/v2/pkg/buffer/linkedlist"
	"github.com/panjf2000/gnet/v2/zzverif/vlib"
)

// listMon drives linkedlist.Buffer against a list-of-segments model (C11).
type listMon struct {
	b    *linkedlist.Buffer
	segs [][]byte
	src  *source
	// exact is false after a ReadFrom until the buffer is empty again: the property does not
	// say how ReadFrom splits the reader's data into segments, so Len is then only checked
	// for zero/non-zero and Pop for "a non-empty prefix of the content".
	exact bool
	nchk  int
}

func newListMon(key uint64) *listMon {
	return &listMon{b: &linkedlist.Buffer{}, src: &source{key: key}, exact: true}
}

func (lm *listMon) total() int {
	n := 0
	for _, s := range lm.segs {
		n += len(s)
	}
	return n
}

func (lm *listMon) flat() []byte {
	var out []byte
	for _, s := range lm.segs {
		out = append(out, s...)
	}
	return out
}

func (lm *listMon) consume(n int) {
	for n > 0 && len(lm.segs) > 0 {
		if n < len(lm.segs[0]) {
			lm.segs[0] = lm.segs[0][n:]
			return
		}
		n -= len(lm.segs[0])
		lm.segs = lm.segs[1:]
	}
}

func (lm *listMon) pre() string {
	switch len(lm.segs) {
	case 0:
		return "empty"
	case 1:
		return "one"
	}
	if len(lm.segs) > 1024 {
		return "gt1024"
	}
	return "many"
}

func (lm *listMon) pickSize(r *vlib.Rand) int {
	n := lm.pickSize0(r)
	if n > 100000 { // keep memory bounded: capacities double when written past
		n = r.Range(1, 100000)
	}
	return n
}

func (lm *listMon) pickSize0(r *vlib.Rand) int {
	have := lm.total()
	first := 0
	if len(lm.segs) > 0 {
		first = len(lm.segs[0])
	}
	switch r.Intn(12) {
	case 0:
		return 0
	case 1:
		return 1
	case 2:
		return have
	case 3:
		return have + 1
	case 4:
		return first
	case 5:
		return first + 1
	case 6:
		if first > 1 {
			return first - 1
		}
		return 1
	case 7:
		return r.Pick(3, 5, 7, 100, 511, 512, 513, 1000, 4097)
	case 8:
		if have > 1 {
			return r.Range(1, have-1)
		}
		return 2
	default:
		return r.Range(1, 700)
	}
}

func listSizeClass(n, have, first int) string {
	switch {
	case n < 0:
		return "neg"
	case n == 0:
		return "0"
	case n == have:
		return "=buffered"
	case n == have+1:
		return "buffered+1"
	case n > have:
		return ">buffered"
	case n == first:
		return "=first-seg"
	case n < first:
		return "inside-first-seg"
	}
	return "spans-segs"
}

func (lm *listMon) invariants() *failure {
	b := lm.b
	if b.Buffered() != lm.total() {
		return failf("invariant:Buffered", "Buffered()=%d, model holds %d bytes", b.Buffered(), lm.total())
	}
	if b.IsEmpty() != (lm.total() == 0) {
		return failf("invariant:IsEmpty", "IsEmpty()=%v with Buffered()=%d Len()=%d (model %d bytes in %d segments)", b.IsEmpty(), b.Buffered(), b.Len(), lm.total(), len(lm.segs))
	}
	if lm.total() == 0 {
		lm.exact = true
	}
	if lm.exact && b.Len() != len(lm.segs) {
		return failf("invariant:Len", "Len()=%d, model holds %d segments", b.Len(), len(lm.segs))
	}
	if (b.Len() == 0) != (lm.total() == 0) {
		return failf("invariant:Len", "Len()=%d with %d content bytes", b.Len(), lm.total())
	}
	lm.nchk++
	if lm.total() > 8192 && lm.nchk%16 != 0 {
		return nil // big buffer: full content comparison every 16th operation only
	}
	bs, err := b.Peek(-1)
	if err != nil {
		return failf("err", "Peek(-1) returned %v", err)
	}
	got := bytes.Join(bs, nil)
	if d := firstDiff(got, lm.flat()); d >= 0 {
		return failf("content", "content differs from the model at offset %d (len %d vs %d)", d, len(got), lm.total())
	}
	return nil
}

func (lm *listMon) step(r *vlib.Rand) (desc, key string, f *failure) {
	pre := lm.pre()
	b := lm.b
	n := lm.pickSize(r)
	have := lm.total()
	first := 0
	if len(lm.segs) > 0 {
		first = len(lm.segs[0])
	}
	var opname, argc string
	op := r.Intn(15)
	if have > 1<<20 { // keep memory bounded
		op, n = 10, have-r.Intn(64)
	}
	panicked, msg := vlib.Catch(func() {
		switch op {
		case 0, 1, 2: // PushBack
			opname, argc = "PushBack", listSizeClass(n, have, first)
			desc = fmt.Sprintf("PushBack(%d)", n)
			p := lm.src.take(n)
			q := append([]byte(nil), p...)
			b.PushBack(q)
			for i := range q { // caller reuses its memory
				q[i] ^= 0xFF
			}
			if n > 0 {
				lm.segs = append(lm.segs, p)
			}
		case 3: // PushFront
			opname, argc = "PushFront", listSizeClass(n, have, first)
			desc = fmt.Sprintf("PushFront(%d)", n)
			p := lm.src.take(n)
			q := append([]byte(nil), p...)
			b.PushFront(q)
			for i := range q {
				q[i] ^= 0xFF
			}
			if n > 0 {
				lm.segs = append([][]byte{p}, lm.segs...)
			}
		case 4: // Append (ownership passes to the buffer)
			opname, argc = "Append", listSizeClass(n, have, first)
			desc = fmt.Sprintf("Append(%d)", n)
			p := lm.src.take(n)
			q := b.AllocNode(n)
			copy(q, p)
			b.Append(q)
			if n > 0 {
				lm.segs = append(lm.segs, p)
			}
		case 5: // Pop
			opname, argc = "Pop", "-"
			desc = "Pop"
			got := b.Pop()
			if len(lm.segs) == 0 {
				if got != nil {
					f = failf("content", "Pop on an empty buffer returned %d bytes", len(got))
				}
				return
			}
			if !lm.exact {
				if len(got) == 0 || len(got) > have || !bytes.Equal(got, lm.flat()[:len(got)]) {
					f = failf("content", "Pop returned %s (%d bytes), not a non-empty prefix of the content", hexHead(got), len(got))
					return
				}
				lm.consume(len(got))
				return
			}
			if !bytes.Equal(got, lm.segs[0]) {
				f = failf("content", "Pop returned %s, want %s", hexHead(got), hexHead(lm.segs[0]))
				return
			}
			lm.segs = lm.segs[1:]
		case 6, 7: // Read
			opname, argc = "Read", listSizeClass(n, have, first)
			desc = fmt.Sprintf("Read(%d)", n)
			p := make([]byte, n)
			got, err := b.Read(p)
			want := min(n, have)
			if got != want {
				f = failf("count", "Read(len %d) returned (%d,%v) with %d buffered", n, got, err, have)
				return
			}
			if want > 0 && err != nil {
				f = failf("err", "Read(len %d) of %d buffered returned error %v", n, have, err)
				return
			}
			if n > 0 && have == 0 && err == nil {
				f = failf("err", "Read on an empty buffer returned (0,nil)")
				return
			}
			if d := firstDiff(p[:got], lm.flat()[:want]); d >= 0 {
				f = failf("content", "Read returned wrong bytes at offset %d", d)
				return
			}
			lm.consume(want)
		case 8: // Peek
			if r.Intn(4) == 0 {
				n = -r.Intn(2)
			}
			opname, argc = "Peek", listSizeClass(n, have, first)
			desc = fmt.Sprintf("Peek(%d)", n)
			bs, err := b.Peek(n)
			if n > have {
				if err == nil {
					f = failf("err", "Peek(%d) with %d buffered returned no error", n, have)
				}
				return
			}
			want := have
			if n > 0 {
				want = n
			}
			if err != nil {
				f = failf("err", "Peek(%d) with %d buffered returned %v", n, have, err)
				return
			}
			got := bytes.Join(bs, nil)
			if d := firstDiff(got, lm.flat()[:want]); d >= 0 {
				f = failf("content", "Peek(%d) with %d buffered returned %d bytes, first difference at %d", n, have, len(got), d)
				return
			}
		case 9: // PeekWithBytes with n within the list (the wider use is C10's business)
			k := r.Intn(3)
			var extra [][]byte
			var pre []byte
			for i := 0; i < k; i++ {
				e := lm.src.take(r.Pick(0, 1, 5, 100))
				extra = append(extra, e)
				pre = append(pre, e...)
			}
			if n > have {
				n = have
			}
			if r.Intn(3) == 0 {
				n = 0
			}
			opname, argc = "PeekWithBytes", listSizeClass(n, have, first)
			desc = fmt.Sprintf("PeekWithBytes(%d, %d extra slices of %d bytes)", n, k, len(pre))
			bs, err := b.PeekWithBytes(n, extra...)
			if err != nil {
				f = failf("err", "PeekWithBytes(%d) with %d buffered returned %v", n, have, err)
				return
			}
			all := append(append([]byte(nil), pre...), lm.flat()...)
			want := len(all)
			if n > 0 {
				want = n
			}
			got := bytes.Join(bs, nil)
			if d := firstDiff(got, all[:want]); d >= 0 {
				f = failf("content", "PeekWithBytes(%d) returned %d bytes, first difference at %d", n, len(got), d)
				return
			}
		case 10, 11: // Discard
			opname, argc = "Discard", listSizeClass(n, have, first)
			desc = fmt.Sprintf("Discard(%d)", n)
			got, err := b.Discard(n)
			want := min(max(n, 0), have)
			if got != want {
				f = failf("count", "Discard(%d) with %d buffered returned (%d,%v)", n, have, got, err)
				return
			}
			lm.consume(want)
		case 12: // ReadFrom
			hr := genReader(r, lm.src, 512)
			opname, argc = "ReadFrom", "reader="+hr.class
			desc = fmt.Sprintf("ReadFrom(%s %v)", hr.class, hr.steps)
			got, err := b.ReadFrom(&segReader{hr: hr, lm: lm})
			lm.exact = false
			if got != int64(len(hr.delivered)) {
				f = failf("count", "ReadFrom reported %d bytes, the reader delivered %d (err %v)", got, len(hr.delivered), err)
				return
			}
			last := hr.steps[len(hr.steps)-1].err
			if hr.i >= len(hr.steps) && last == errInjected && err == nil {
				f = failf("err", "ReadFrom swallowed the reader's error")
				return
			}
		case 13: // WriteTo
			hw := genWriter(r)
			opname, argc = "WriteTo", "writer="+hw.class
			desc = fmt.Sprintf("WriteTo(%s)", hw.class)
			got, err := b.WriteTo(hw)
			acc := hw.accepted
			if len(acc) > have || !bytes.Equal(acc, lm.flat()[:len(acc)]) {
				f = failf("content", "WriteTo handed the writer bytes that are not the buffer's front (accepted %d, buffered %d)", len(acc), have)
				return
			}
			if got != int64(len(acc)) {
				f = failf("count", "WriteTo reported %d, the writer accepted %d", got, len(acc))
				return
			}
			lm.consume(len(acc))
			if !hw.gotErr && lm.total() != 0 {
				f = failf("count", "WriteTo stopped after %d of %d bytes although the writer accepted everything (err %v)", len(acc), have, err)
				return
			}
			if hw.gotErr && err == nil {
				f = failf("err", "WriteTo swallowed the writer's error")
				return
			}
			if !hw.gotErr && err != nil {
				f = failf("err", "WriteTo returned %v although the writer accepted everything", err)
				return
			}
		case 14:
			opname, argc = "Reset", "-"
			desc = "Reset"
			if r.Intn(4) != 0 {
				opname, desc = "Check", "Check"
				return
			}
			b.Reset()
			lm.segs = nil
		}
	})
	key = "list|" + opname + "|" + pre + "|" + argc
	if panicked {
		return desc, key, &failure{kind: "panic=" + vlib.PanicClass(msg), detail: desc + " panicked: " + msg}
	}
	if f != nil {
		return
	}
	if p2, msg2 := vlib.Catch(func() { f = lm.invariants() }); p2 {
		f = &failure{kind: "panic=" + vlib.PanicClass(msg2), detail: "accessor panicked after " + desc + ": " + msg2}
	} else if f != nil {
		f.detail = "after " + desc + ": " + f.detail
	}
	return
}

// segReader forwards to the hostile reader and appends one model segment per call that
// delivered data (the buffer stores one segment per successful Read of its reader).
type segReader struct {
	hr *hostileReader
	lm *listMon
}

func (s *segReader) Read(p []byte) (int, error) {
	before := len(s.hr.delivered)
	n, err := s.hr.Read(p)
	if n > 0 {
		s.lm.segs = append(s.lm.segs, append([]byte(nil), s.hr.delivered[before:before+n]...))
	}
	return n, err
}
