//go:build verif

package main

import (
	"bytes"
	"fmt"

	"github.com/panjf2000/gnet/v2/pkg/buffer/elastic"
	"github.com/panjf2000/gnet/v2/zzverif/vlib"
)

// elMon drives elastic.Buffer (ring + linked list) against a []byte FIFO model (C10).
type elMon struct {
	b   *elastic.Buffer
	m   []byte
	src *source
	max int
	// ringEst estimates how many of the model's bytes live in the ring (classification only)
	listUsed bool
	nchk     int
}

func newElMon(max int, key uint64) *elMon {
	b, err := elastic.New(max)
	if err != nil {
		panic(err)
	}
	return &elMon{b: b, src: &source{key: key}, max: max}
}

func (em *elMon) pre() string {
	have := len(em.m)
	if have == 0 {
		em.listUsed = false
		return "empty"
	}
	s := "ring<limit"
	if have >= em.max {
		s = "ring>=limit"
	}
	if em.listUsed {
		s += "+list"
	}
	return s
}

func (em *elMon) pickSize(r *vlib.Rand) int {
	n := em.pickSize0(r)
	if n > 100000 { // keep memory bounded: capacities double when written past
		n = r.Range(1, 100000)
	}
	return n
}

func (em *elMon) pickSize0(r *vlib.Rand) int {
	have := len(em.m)
	switch r.Intn(14) {
	case 0:
		return 0
	case 1:
		return 1
	case 2:
		return have
	case 3:
		return have + 1
	case 4:
		if have > 1 {
			return have - 1
		}
		return 1
	case 5:
		return em.max
	case 6:
		return em.max + 1
	case 7:
		if em.max > 1 {
			return em.max - 1
		}
		return 1
	case 8:
		if have < em.max {
			return em.max - have
		}
		return 3
	case 9:
		if have < em.max {
			return em.max - have + 1
		}
		return 5
	case 10:
		return r.Pick(1023, 1024, 1025, 4095, 4096, 4097)
	case 11:
		if have > 2 {
			return r.Range(1, have-1)
		}
		return 2
	default:
		return r.Range(1, 3*em.max/2+10)
	}
}

func elSizeClass(n, have, max int) string {
	switch {
	case n < 0:
		return "neg"
	case n == 0:
		return "0"
	case n == have:
		return "=buffered"
	case n > have:
		return ">buffered"
	case n == max:
		return "=limit"
	case n < max:
		return "<limit"
	}
	return ">limit"
}

func (em *elMon) invariants() *failure {
	b := em.b
	if b.Buffered() != len(em.m) {
		return failf("invariant:Buffered", "Buffered()=%d, model holds %d bytes", b.Buffered(), len(em.m))
	}
	if b.IsEmpty() != (len(em.m) == 0) {
		return failf("invariant:IsEmpty", "IsEmpty()=%v, model holds %d bytes", b.IsEmpty(), len(em.m))
	}
	em.nchk++
	if len(em.m) > 8192 && em.nchk%16 != 0 {
		return nil // big buffer: full content comparison every 16th operation only
	}
	bs, err := b.Peek(-1)
	if err != nil {
		return failf("err", "Peek(-1) returned %v", err)
	}
	got := bytes.Join(bs, nil)
	if d := firstDiff(got, em.m); d >= 0 {
		return failf("content", "Peek(-1) differs from the model at offset %d (len %d vs %d)", d, len(got), len(em.m))
	}
	return nil
}

func (em *elMon) step(r *vlib.Rand) (desc, key string, f *failure) {
	pre := em.pre()
	b := em.b
	n := em.pickSize(r)
	have := len(em.m)
	var opname, argc string
	op := r.Intn(16)
	if have > 1<<20 { // keep memory bounded
		op, n = 10, have-r.Intn(64)
	}
	panicked, msg := vlib.Catch(func() {
		switch op {
		case 0, 1, 2: // Write
			opname, argc = "Write", elSizeClass(n, have, em.max)
			desc = fmt.Sprintf("Write(%d)", n)
			p := em.src.take(n)
			q := append([]byte(nil), p...)
			got, err := b.Write(q)
			for i := range q {
				q[i] ^= 0xFF
			}
			if got != n || err != nil {
				f = failf("count", "Write(%d bytes) returned (%d,%v)", n, got, err)
				return
			}
			em.m = append(em.m, p...)
			if have+n > em.max {
				em.listUsed = true
			}
		case 3, 4: // Writev
			k := r.Pick(0, 1, 2, 3, 5, 8)
			if r.Intn(12) == 0 {
				k = r.Range(1025, 1100)
			}
			var segs [][]byte
			var all []byte
			for i := 0; i < k; i++ {
				sz := r.Pick(0, 1, 2, 7, 100)
				if k < 10 && r.Intn(3) == 0 {
					sz = em.pickSize(r)
				}
				p := em.src.take(sz)
				all = append(all, p...)
				segs = append(segs, append([]byte(nil), p...))
			}
			cls := "few"
			if k == 0 {
				cls = "none"
			} else if k > 1024 {
				cls = ">1024"
			}
			opname, argc = "Writev", "segs="+cls+","+elSizeClass(len(all), have, em.max)
			desc = fmt.Sprintf("Writev(%d segments, %d bytes)", k, len(all))
			got, err := b.Writev(segs)
			for _, s := range segs {
				for i := range s {
					s[i] ^= 0xFF
				}
			}
			if got != len(all) || err != nil {
				f = failf("count", "Writev(%d bytes in %d segments) returned (%d,%v)", len(all), k, got, err)
				return
			}
			em.m = append(em.m, all...)
			if have+len(all) > em.max {
				em.listUsed = true
			}
		case 5, 6: // Read
			opname, argc = "Read", elSizeClass(n, have, em.max)
			desc = fmt.Sprintf("Read(%d)", n)
			p := make([]byte, n)
			got, err := b.Read(p)
			want := min(n, have)
			if got != want {
				f = failf("count", "Read(len %d) returned (%d,%v) with %d buffered", n, got, err, have)
				return
			}
			if d := firstDiff(p[:got], em.m[:want]); d >= 0 {
				f = failf("content", "Read returned wrong bytes at offset %d", d)
				return
			}
			em.m = em.m[want:]
		case 7, 8, 9: // Peek
			if r.Intn(4) == 0 {
				n = -r.Intn(2)
			}
			opname, argc = "Peek", elSizeClass(n, have, em.max)
			desc = fmt.Sprintf("Peek(%d)", n)
			bs, err := b.Peek(n)
			if n > have {
				if err == nil {
					f = failf("err", "Peek(%d) with %d buffered returned no error", n, have)
				}
				return
			}
			want := have
			if n > 0 {
				want = n
			}
			if err != nil {
				f = failf("err", "Peek(%d) with %d buffered returned %v", n, have, err)
				return
			}
			got := bytes.Join(bs, nil)
			if d := firstDiff(got, em.m[:want]); d >= 0 {
				f = failf("content", "Peek(%d) with %d buffered returned %d bytes, first difference at %d", n, have, len(got), d)
				return
			}
		case 10, 11: // Discard
			opname, argc = "Discard", elSizeClass(n, have, em.max)
			desc = fmt.Sprintf("Discard(%d)", n)
			got, err := b.Discard(n)
			want := min(max(n, 0), have)
			if got != want {
				f = failf("count", "Discard(%d) with %d buffered returned (%d,%v)", n, have, got, err)
				return
			}
			em.m = em.m[want:]
		case 12: // ReadFrom
			hr := genReader(r, em.src, em.max)
			opname, argc = "ReadFrom", "reader="+hr.class
			desc = fmt.Sprintf("ReadFrom(%s %v)", hr.class, hr.steps)
			got, err := b.ReadFrom(hr)
			em.m = append(em.m, hr.delivered...)
			if have+len(hr.delivered) > em.max {
				em.listUsed = true
			}
			if got != int64(len(hr.delivered)) {
				f = failf("count", "ReadFrom reported %d bytes, the reader delivered %d (err %v)", got, len(hr.delivered), err)
				return
			}
			last := hr.steps[len(hr.steps)-1].err
			if hr.i >= len(hr.steps) && last == errInjected && err == nil {
				f = failf("err", "ReadFrom swallowed the reader's error")
				return
			}
		case 13: // WriteTo
			hw := genWriter(r)
			opname, argc = "WriteTo", "writer="+hw.class
			desc = fmt.Sprintf("WriteTo(%s)", hw.class)
			got, err := b.WriteTo(hw)
			acc := hw.accepted
			if len(acc) > have || !bytes.Equal(acc, em.m[:len(acc)]) {
				f = failf("content", "WriteTo handed the writer bytes that are not the buffer's front (accepted %d, buffered %d)", len(acc), have)
				return
			}
			if got != int64(len(acc)) {
				f = failf("count", "WriteTo reported %d, the writer accepted %d", got, len(acc))
				return
			}
			em.m = em.m[len(acc):]
			if !hw.gotErr && len(em.m) != 0 {
				f = failf("count", "WriteTo stopped after %d of %d bytes although the writer accepted everything (err %v)", len(acc), have, err)
				return
			}
			if hw.gotErr && err == nil {
				f = failf("err", "WriteTo swallowed the writer's error")
				return
			}
		case 14: // Reset / Release (rare)
			if r.Intn(5) != 0 {
				opname, argc, desc = "Check", "-", "Check"
				return
			}
			if r.Bool() {
				opname, argc, desc = "Reset", "-", "Reset"
				b.Reset(em.max)
			} else {
				opname, argc, desc = "Release", "-", "Release"
				b.Release()
			}
			em.m = em.m[:0]
			em.listUsed = false
		case 15: // drain through small reads: exercises the lazy return of the pooled ring
			opname, argc = "DrainByRead", elSizeClass(have, have, em.max)
			desc = "DrainByRead"
			p := make([]byte, 37)
			for len(em.m) > 0 {
				got, _ := b.Read(p)
				want := min(len(p), len(em.m))
				if got != want || !bytes.Equal(p[:got], em.m[:want]) {
					f = failf("content", "draining Read returned %d bytes (want %d) or wrong content", got, want)
					return
				}
				em.m = em.m[want:]
			}
			em.listUsed = false
		}
	})
	key = "elastic|" + opname + "|" + pre + "|" + argc
	if panicked {
		return desc, key, &failure{kind: "panic=" + vlib.PanicClass(msg), detail: desc + " panicked: " + msg}
	}
	if f != nil {
		return
	}
	if p2, msg2 := vlib.Catch(func() { f = em.invariants() }); p2 {
		f = &failure{kind: "panic=" + vlib.PanicClass(msg2), detail: "accessor panicked after " + desc + ": " + msg2}
	} else if f != nil {
		f.detail = "after " + desc + ": " + f.detail
	}
	return
}
