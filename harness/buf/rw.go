//go:build verif

package main

import (
	"errors"
	"fmt"
	"io"

	"github.com/panjf2000/gnet/v2/zzverif/vlib"
)

// source produces the unique, position-determined byte stream that is fed into buffers.
type source struct {
	key uint64
	pos int64
}

func (s *source) take(n int) []byte {
	p := make([]byte, n)
	vlib.StreamFill(s.key, s.pos, p)
	s.pos += int64(n)
	return p
}

var errInjected = errors.New("injected reader/writer error")

// rstep is one scripted answer of the hostile reader.
type rstep struct {
	n   int   // bytes to deliver (clipped to len(p))
	err error // returned together with them
}

// hostileReader is a contract-conforming io.Reader following a script.
type hostileReader struct {
	src       *source
	steps     []rstep
	i         int
	delivered []byte // everything handed out, in order
	zeroCalls int
	class     string
	calls     int
}

func (h *hostileReader) Read(p []byte) (int, error) {
	h.calls++
	if len(p) == 0 {
		h.zeroCalls++
		if h.zeroCalls > 64 {
			return 0, io.EOF
		}
		return 0, nil
	}
	if h.i >= len(h.steps) {
		return 0, io.EOF
	}
	st := h.steps[h.i]
	h.i++
	n := st.n
	if n < 0 || n > len(p) { // -1: fill
		n = len(p)
		if n > 65536 { // pooled rings keep their capacity: bound what one Read adds
			n = 65536 - 1
		}
	}
	b := h.src.take(n)
	copy(p, b)
	h.delivered = append(h.delivered, b...)
	return n, st.err
}

// genReader builds a reader script. class names the behaviour for signatures.
func genReader(r *vlib.Rand, src *source, sizeHint int) *hostileReader {
	h := &hostileReader{src: src}
	kind := r.Intn(9)
	small := func() int { return r.Pick(1, 2, 3, 4, 7, 8, 100, 511, 512, 513) }
	switch kind {
	case 0: // nothing at all
		h.class = "empty"
		h.steps = []rstep{{0, io.EOF}}
	case 1: // one full chunk then EOF
		h.class = "full-then-eof"
		h.steps = []rstep{{-1, nil}, {0, io.EOF}}
	case 2: // short reads
		h.class = "short"
		for i, k := 0, r.Range(1, 6); i < k; i++ {
			h.steps = append(h.steps, rstep{small(), nil})
		}
		h.steps = append(h.steps, rstep{0, io.EOF})
	case 3: // data together with EOF
		h.class = "data+eof"
		if r.Bool() {
			h.steps = append(h.steps, rstep{small(), nil})
		}
		h.steps = append(h.steps, rstep{small(), io.EOF})
	case 4: // data together with an error
		h.class = "data+err"
		if r.Bool() {
			h.steps = append(h.steps, rstep{small(), nil})
		}
		h.steps = append(h.steps, rstep{small(), errInjected})
	case 5: // error alone after some data
		h.class = "err-after-data"
		h.steps = []rstep{{small(), nil}, {0, errInjected}}
	case 6: // a (0,nil) read in the middle (allowed, discouraged)
		h.class = "zero-nil"
		if r.Bool() {
			h.steps = append(h.steps, rstep{small(), nil})
		}
		h.steps = append(h.steps, rstep{0, nil})
		if r.Bool() {
			h.steps = append(h.steps, rstep{small(), nil})
		}
		h.steps = append(h.steps, rstep{0, io.EOF})
	case 7: // large: several full chunks
		h.class = "multi-full"
		for i, k := 0, r.Range(2, 5); i < k; i++ {
			h.steps = append(h.steps, rstep{-1, nil})
		}
		h.steps = append(h.steps, rstep{small(), io.EOF})
	case 8: // full then short then full
		h.class = "mixed"
		h.steps = []rstep{{-1, nil}, {small(), nil}, {-1, nil}, {small(), nil}, {0, io.EOF}}
	}
	_ = sizeHint
	return h
}

// wstep is one scripted answer of the hostile writer.
type wstep struct {
	n   int // bytes to accept (-1 all)
	err error
}

// hostileWriter is a contract-conforming io.Writer: a short write always carries an error.
type hostileWriter struct {
	steps    []wstep
	i        int
	accepted []byte
	class    string
	calls    int
	gotErr   bool
}

func (h *hostileWriter) Write(p []byte) (int, error) {
	h.calls++
	if h.i >= len(h.steps) {
		h.accepted = append(h.accepted, p...)
		return len(p), nil
	}
	st := h.steps[h.i]
	h.i++
	n := st.n
	if n < 0 || n > len(p) {
		n = len(p)
	}
	err := st.err
	if n < len(p) && err == nil {
		err = io.ErrShortWrite
	}
	if err != nil {
		h.gotErr = true
	}
	h.accepted = append(h.accepted, p[:n]...)
	return n, err
}

func genWriter(r *vlib.Rand) *hostileWriter {
	h := &hostileWriter{}
	switch r.Intn(6) {
	case 0, 1:
		h.class = "accept-all"
	case 2:
		h.class = "short-first"
		h.steps = []wstep{{r.Pick(0, 1, 2, 5, 100), errInjected}}
	case 3:
		h.class = "short-second"
		h.steps = []wstep{{-1, nil}, {r.Pick(0, 1, 3, 50), errInjected}}
	case 4:
		h.class = "zero-err"
		h.steps = []wstep{{0, errInjected}}
	case 5:
		h.class = "full-with-err"
		h.steps = []wstep{{-1, errInjected}}
	}
	return h
}

// failure describes the first divergence of a sequence.
type failure struct {
	kind   string // panic=..., content, count, err, invariant:...
	detail string
}

func failf(kind, format string, a ...any) *failure {
	return &failure{kind: kind, detail: fmt.Sprintf(format, a...)}
}

func firstDiff(a, b []byte) int {
	n := len(a)
	if len(b) < n {
		n = len(b)
	}
	for i := 0; i < n; i++ {
		if a[i] != b[i] {
			return i
		}
	}
	if len(a) != len(b) {
		return n
	}
	return -1
}

func hexHead(b []byte) string {
	if len(b) > 12 {
		return fmt.Sprintf("%x..(%d)", b[:12], len(b))
	}
	return fmt.Sprintf("%x", b)
}
