//go:build verif

// Harness wake decides the poller-level part of C03: every task accepted by Poller.Trigger runs
// exactly once on the polling goroutine, high-priority tasks of one producer in issue order, and no
// wake-up is lost, under delay injection at every atomic / queue / eventfd / epoll operation of the
// (point-instrumented, shimmed) poller and queue sources. The loop has no other source of wake-ups.
package main

import (
	"fmt"
	"strings"
	"sync"
	"sync/atomic"
	"time"

	"golang.org/x/sys/unix"

	"github.com/panjf2000/gnet/v2/pkg/netpoll"
	"github.com/panjf2000/gnet/v2/pkg/queue"
	"github.com/panjf2000/gnet/v2/pkg/vsys"
	"github.com/panjf2000/gnet/v2/zzverif/vlib"
)

type taskRec struct {
	id    int64
	prod  int
	high  bool
	runs  atomic.Int32
	order int64 // execution order stamp
	gid   int64
}

// ---- I/O load: descriptors of the harness registered with the poller. One of them is a gate: its callback holds
// the loop, so that everything made ready meanwhile (other descriptors and the wake-up eventfd) is reported by ONE
// epoll_wait - which lets the harness produce batches of exactly 'event list size' events.
var (
	ioFDs       []int
	ioPAs       []*netpoll.PollAttachment
	gateFD      = -1
	gateCh      = make(chan struct{})
	gateEntered = make(chan struct{}, 1)
	ioEvents    atomic.Int64
)

func ioCallback(fd int, _ netpoll.IOEvent, _ netpoll.IOFlags) error {
	var b [8]byte
	_, _ = unix.Read(fd, b[:])
	ioEvents.Add(1)
	if fd == gateFD {
		gateEntered <- struct{}{}
		<-gateCh
	}
	return nil
}

func main() {
	res := vlib.Start("wake")
	if !vsys.Shimmed || !vsys.Pointed {
		res.Note("built without shim/points: the stuck predicate and delay injection are unavailable")
	}
	iters := 20000
	if res.Thorough() {
		iters = 400000
	}
	if *vlib.FlagN > 0 {
		iters = *vlib.FlagN
	}
	p, err := netpoll.OpenPoller()
	if err != nil {
		panic(err)
	}
	for i := 0; i < 140; i++ {
		fd, err := unix.Eventfd(0, unix.EFD_NONBLOCK|unix.EFD_CLOEXEC)
		if err != nil {
			panic(err)
		}
		pa := &netpoll.PollAttachment{FD: fd, Callback: ioCallback}
		ioPAs = append(ioPAs, pa) // the poll_opt poller keeps only an untyped pointer to it inside the kernel's event data
		if err := p.AddRead(pa, false); err != nil {
			panic(err)
		}
		ioFDs = append(ioFDs, fd)
	}
	gateFD = ioFDs[0]
	one := []byte{1, 0, 0, 0, 0, 0, 0, 0}
	ioBatches := int64(0)
	overflowRaces := int64(0)
	// the yield point in front of the low-priority Enqueue of Trigger (looked up by statement text in this variant's file)
	lowEnqueuePoint := 0
	for i, d := range vsys.PointTable {
		if strings.Contains(d, pollerFile) && strings.Contains(d, "stmt p.asyncTaskQueue.Enqueue(task)") {
			lowEnqueuePoint = i + 1
			break
		}
	}
	pollDone := make(chan error, 1)
	var loopGid atomic.Int64
	go func() {
		loopGid.Store(vlib.GoID())
		pollDone <- polling(p)
	}()
	pts := append(vsys.PointsIn("pkg/netpoll/"), vsys.PointsIn("pkg/queue/")...)
	vsys.SetSeed(res.Seed)
	vsys.Enabled.Store(true)
	var execCtr atomic.Int64
	var executed atomic.Int64
	var submitted int64
	sigs := map[uint64]struct{}{}
	var efdBefore int64
	idleStarts, busyStarts, bursts := int64(0), int64(0), int64(0)
	inLoopBursts := int64(0)
	selfWakeIters := int64(0)
	blocked := func() bool {
		for _, ps := range vsys.Pollers() {
			if ps.InWait && ps.Blocking {
				return true
			}
		}
		return false
	}
	itersDone := 0
	for it := 0; it < iters && !res.TimeUp(); it++ {
		itersDone = it + 1
		r := vlib.NewRand(res.Seed*1000003 + uint64(it))
		// wait for the loop to block (most iterations) or start while it is still draining (some)
		if r.Intn(4) != 0 {
			for k := 0; !blocked() && k < 200000; k++ {
				time.Sleep(5 * time.Microsecond)
			}
			idleStarts++
		} else {
			busyStarts++
		}
		K := r.Pick(1, 2, 3, 8)
		per := r.Pick(1, 1, 2, 3)
		burst := false
		if r.Intn(200) == 0 { // bursts: >256 low-priority and >1024 queued tasks
			K, per, burst = r.Pick(1, 2), r.Pick(300, 700, 1500), true
			bursts++
		}
		vsys.ClearFocus()
		if len(pts) > 0 && !burst {
			vsys.AddFocus(pts[r.Intn(len(pts))], 1+r.Intn(3), int64(100000+r.Intn(400000)))
			if r.Intn(3) == 0 {
				vsys.AddFocus(pts[r.Intn(len(pts))], 1+r.Intn(2), int64(100000+r.Intn(400000)))
			}
		}
		efdBefore = vsys.EfdWrites.Load()
		if !burst {
			vsys.BeginIter()
		}
		// every 16th iteration: the requests arrive together with M ready descriptors in one epoll_wait batch, M around
		// the sizes the event list takes (32 after quiet rounds, doubling after a full batch)
		ioM, io0 := 0, ioEvents.Load()
		if !burst && it%16 == 7 {
			ioM = r.Pick(5, 30, 31, 31, 32, 33, 62, 63, 64, 126, 127, 128)
			_, _ = unix.Write(gateFD, one)
			<-gateEntered // the loop is inside the gate's callback now
			for j := 1; j <= ioM; j++ {
				_, _ = unix.Write(ioFDs[j], one)
			}
			ioBatches++
		}
		// every 64th iteration: the race in the low-priority overflow path of Trigger. A task on the loop fills the
		// urgent queue beyond the threshold and holds the loop; an outside producer issues ONE low-priority request, passes
		// the length test and is paused right before its Enqueue; the loop is released, drains everything and blocks; then
		// the producer goes on. Its request must still wake the loop.
		overflowRace := false
		if !burst && ioM == 0 && it%256 == 33 && lowEnqueuePoint > 0 {
			overflowRace = true
			K, per = 0, 0
			gate, filled := make(chan struct{}), make(chan struct{})
			vsys.Enabled.Store(false) // no perturbation while the backlog is built (13000 point hits otherwise)
			_ = p.Trigger(queue.HighPriority, func(any) error {
				for j := 0; j < 1100; j++ {
					_ = p.Trigger(queue.HighPriority, func(any) error { executed.Add(1); return nil }, nil)
				}
				close(filled)
				<-gate
				executed.Add(1)
				return nil
			}, nil)
			<-filled
			vsys.ClearFocus()
			vsys.AddFocus(lowEnqueuePoint, 1, 150000000)
			vsys.Enabled.Store(true)
			lowDone := make(chan struct{})
			go func() {
				_ = p.Trigger(queue.LowPriority, func(any) error { executed.Add(1); return nil }, nil)
				close(lowDone)
			}()
			time.Sleep(1500 * time.Microsecond) // the producer is inside its pause now (it saw >= 1024 urgent requests)
			e0, t0 := executed.Load(), time.Now()
			close(gate)
			for executed.Load() < e0+1101 && time.Since(t0) < 2*time.Second {
				time.Sleep(50 * time.Microsecond)
			}
			res.ObsMax("max:us_to_drain_the_backlog_in_overflow_race", time.Since(t0).Microseconds())
			<-lowDone
			submitted += 1102
			overflowRaces++
		}
		recs := make([][]*taskRec, K)
		var wg sync.WaitGroup
		var rejected atomic.Int64
		inLoop := burst && r.Bool()
		if inLoop {
			// the whole burst is submitted by ONE task running on the loop itself: the queues cannot drain meanwhile,
			// so the urgent queue really holds > 1024 tasks and the rest goes to the low-priority queue (> 256 there)
			K = 1
			recs = make([][]*taskRec, 1)
			nHigh, nLow := r.Pick(1100, 1500), r.Pick(300, 600, 900)
			per = nHigh + nLow
			seeded := make(chan struct{})
			_ = p.Trigger(queue.HighPriority, func(any) error {
				for j := 0; j < per; j++ {
					t := &taskRec{id: int64(it)<<20 | int64(j), prod: 0, high: j < nHigh}
					prio := queue.LowPriority
					if t.high {
						prio = queue.HighPriority
					}
					recs[0] = append(recs[0], t)
					if err := p.Trigger(prio, func(any) error {
						t.runs.Add(1)
						t.order = execCtr.Add(1)
						t.gid = vlib.GoID()
						executed.Add(1)
						return nil
					}, nil); err != nil {
						rejected.Add(1)
						t.runs.Store(-1000)
					}
				}
				close(seeded)
				return nil
			}, nil)
			<-seeded
			inLoopBursts++
		}
		for k := 0; k < K && !inLoop; k++ {
			wg.Add(1)
			pr := r.Fork()
			go func(k int) {
				defer wg.Done()
				for j := 0; j < per; j++ {
					t := &taskRec{id: int64(it)<<20 | int64(k)<<12 | int64(j), prod: k, high: pr.Intn(3) != 0}
					prio := queue.LowPriority
					if t.high {
						prio = queue.HighPriority
					}
					recs[k] = append(recs[k], t)
					if err := p.Trigger(prio, func(any) error {
						t.runs.Add(1)
						t.order = execCtr.Add(1)
						t.gid = vlib.GoID()
						executed.Add(1)
						return nil
					}, nil); err != nil {
						rejected.Add(1)
						t.runs.Store(-1000)
					}
				}
			}(k)
		}
		wg.Wait()
		if ioM > 0 {
			gateCh <- struct{}{} // release the loop: its next epoll_wait reports the eventfd and the M descriptors at once
			for k := 0; k < 400000 && ioEvents.Load() < io0+int64(ioM)+1; k++ {
				time.Sleep(5 * time.Microsecond)
			}
			if got := ioEvents.Load() - io0; got != int64(ioM)+1 {
				res.Inconc("iteration %d: %d of %d ready descriptors reported", it, got, ioM+1)
			}
		}
		n := int64(K*per) - rejected.Load()
		submitted += n
		if overflowRace {
			n = 1102
		}
		// quiescence: wait until everything accepted has run; the watchdog only decides when to look
		deadline := time.Now().Add(3 * time.Second)
		for executed.Load() < submitted && time.Now().Before(deadline) {
			time.Sleep(10 * time.Microsecond)
		}
		if !burst {
			sig, ln := vsys.EndIter()
			if ln > 2 {
				sigs[sig] = struct{}{}
			}
		}
		vsys.ClearFocus()
		if vsys.EfdWrites.Load()-efdBefore > 1 {
			selfWakeIters++
		}
		if executed.Load() < submitted {
			stuck, desc := pollersStuck()
			if executed.Load() >= submitted {
				// finished meanwhile
			} else if stuck {
				missing := submitted - executed.Load()
				// independent confirmation: an unrelated wake-up makes the missing tasks run
				vsys.Enabled.Store(false)
				_ = p.Trigger(queue.HighPriority, func(any) error { return nil }, nil)
				time.Sleep(300 * time.Millisecond)
				late := executed.Load() >= submitted
				var log []string
				for _, id := range vsys.IterLog() {
					if int(id) >= 1 && int(id) <= len(vsys.PointTable) {
						log = append(log, vsys.PointTable[id-1])
					}
				}
				sig := "C03 lost wake-up variant=" + variant
				if !late {
					sig = "C03 accepted task never executed (not even after another wake-up) variant=" + variant
				}
				res.Violate(sig, fmt.Sprintf("iteration %d: %d of %d accepted tasks never ran; every producer had returned and %s; an unrelated Trigger afterwards made them run: %v", it, missing, n, desc, late),
					map[string]any{"iteration": it, "producers": K, "per_producer": per, "executed_late_on_unrelated_wake": late})
				res.Eval(int64(it + 1))
				finish(res, sigs, idleStarts, busyStarts, bursts, selfWakeIters, pts, submitted)
				return
			} else {
				res.Inconc("iteration %d: %d tasks pending at the watchdog but the loop is not blocked (%s)", it, submitted-executed.Load(), desc)
				for k := 0; k < 3000 && executed.Load() < submitted; k++ {
					time.Sleep(time.Millisecond)
				}
				if executed.Load() < submitted {
					res.Inconc("iteration %d: giving up", it)
					break
				}
			}
		}
		// exactly once, on the loop goroutine, high-priority tasks of one producer in issue order
		for k := 0; k < K; k++ {
			var lastHigh int64
			for _, t := range recs[k] {
				rn := t.runs.Load()
				if rn < 0 {
					continue
				}
				if rn != 1 {
					res.Violate("C03 task not executed exactly once variant="+variant, fmt.Sprintf("iteration %d: task of producer %d ran %d times", it, k, rn), map[string]any{"iteration": it})
				}
				if t.gid != loopGid.Load() {
					res.Violate("C05 task ran off the polling goroutine", fmt.Sprintf("iteration %d: task ran on goroutine %d, the loop is goroutine %d", it, t.gid, loopGid.Load()), nil)
				}
				if t.high && (!burst || inLoop) {
					if t.order < lastHigh {
						res.Violate("C03 high-priority tasks of one producer reordered variant="+variant, fmt.Sprintf("iteration %d producer %d: a task issued later ran before one issued earlier", it, k), map[string]any{"iteration": it})
					}
					lastHigh = t.order
				}
			}
		}
		if res.NViolations() > 5 {
			break
		}
		if it < 2 {
			res.Sample(map[string]any{"iteration": it, "producers": K, "tasks_per_producer": per, "loop_idle_at_start": true})
		}
	}
	res.Obs("burst_iterations_submitted_from_the_loop", inLoopBursts)
	res.Obs("iterations_with_io_batch_around_event_list_size", ioBatches)
	res.Obs("iterations_with_low_priority_overflow_race", overflowRaces)
	res.Eval(int64(itersDone))
	finish(res, sigs, idleStarts, busyStarts, bursts, selfWakeIters, pts, submitted)
}

func pollersStuck() (bool, string) {
	var first []vsys.PollerState
	for s := 0; s < 3; s++ {
		ps := vsys.Pollers()
		if len(ps) == 0 {
			return false, "no shim poller state"
		}
		for _, p := range ps {
			if !p.InWait || !p.Blocking {
				return false, "the loop is running"
			}
		}
		if s == 0 {
			first = ps
		} else {
			for i := range ps {
				if i >= len(first) || ps[i].EntrySeq != first[i].EntrySeq {
					return false, "the loop woke up between samples"
				}
			}
		}
		if s < 2 {
			time.Sleep(time.Second)
		}
	}
	return true, "the loop stayed inside the same blocking epoll_wait for 2s"
}

func finish(res *vlib.Result, sigs map[uint64]struct{}, idle, busy, bursts, selfWake int64, pts []int, tasks int64) {
	for s := range sigs {
		res.Distinct(fmt.Sprintf("sig:%016x", s))
	}
	res.Obs("iterations_loop_idle_at_start", idle)
	res.Obs("iterations_loop_busy_at_start", busy)
	res.Obs("burst_iterations", bursts)
	res.Obs("iterations_with_more_than_one_eventfd_write", selfWake)
	res.Obs("tasks", tasks)
	res.Obs("distinct_interleaving_signatures", int64(len(sigs)))
	reached := 0
	var hits []uint64
	for _, i := range pts {
		h := vsys.Hits[i].Load()
		hits = append(hits, h)
		if h > 0 {
			reached++
		}
	}
	res.Obs("max:yield_points_reached", int64(reached))
	res.Obs("max:yield_points_total", int64(len(pts)))
	res.Extra["point_hits"] = hits
	res.Extra["variant"] = variant
	res.Finish()
}
