//go:build verif && !poll_opt

package main

import "github.com/panjf2000/gnet/v2/pkg/netpoll"

const variant = "default"

const pollerFile = "poller_epoll_default.go"

func polling(p *netpoll.Poller) error {
	return p.Polling(ioCallback)
}
