//go:build verif

// Harness reg decides C14: the connection registry (map-based by default, compacting matrix
// under gc_opt) against a plain map model, over generated add/remove/lookup/iterate histories.
package main

import (
	"fmt"
	"sort"

	gnet "github.com/panjf2000/gnet/v2"
	"github.com/panjf2000/gnet/v2/zzverif/vlib"
)

type model struct {
	reg     *gnet.VerifRegistry
	live    map[int]any // fd -> handle
	order   []int       // live fds in insertion order (with holes removed lazily)
	removed []int       // recently removed numbers
	steps   int
	trace   []string
	noFull  int // > 0: an iteration was stopped early; no complete iteration for that many operations
}

func (m *model) fullUnlessInterrupted() *fail {
	if m.noFull > 0 {
		return m.lookups()
	}
	return m.full()
}

func newModel() *model {
	return &model{reg: gnet.VerifNewRegistry(), live: map[int]any{}}
}

type fail struct{ kind, detail string }

func (m *model) compact() {
	if len(m.order) > 2*len(m.live)+16 {
		var o []int
		for _, fd := range m.order {
			if _, ok := m.live[fd]; ok {
				o = append(o, fd)
			}
		}
		m.order = o
	}
}

func (m *model) liveAt(r *vlib.Rand, where string) (int, bool) {
	m.compact()
	var idxs []int
	for i, fd := range m.order {
		if _, ok := m.live[fd]; ok {
			idxs = append(idxs, i)
		}
	}
	if len(idxs) == 0 {
		return 0, false
	}
	switch where {
	case "first":
		return m.order[idxs[0]], true
	case "last":
		return m.order[idxs[len(idxs)-1]], true
	case "middle":
		return m.order[idxs[len(idxs)/2]], true
	}
	return m.order[idxs[r.Intn(len(idxs))]], true
}

func (m *model) posClass(h any) string {
	_, _, row, col := gnet.VerifGfdOf(h)
	if gnet.VerifVariant == "map" {
		return "-"
	}
	cr, cc := m.reg.Cursor()
	c := "mid"
	switch {
	case col == 0:
		c = "col0"
	case col == 65535:
		c = "col-max"
	}
	if row == cr && col == cc-1 || (cc == 0 && row == cr-1 && col == 65535) {
		c += "+tail"
	}
	if row > 0 {
		c += "+row>0"
	}
	return c
}

// quick checks for a touched descriptor
func (m *model) checkFd(fd int) *fail {
	got := m.reg.Get(fd)
	want, ok := m.live[fd]
	if !ok {
		if got != nil {
			return &fail{"lookup-stale", fmt.Sprintf("getConn(%d) returned a connection although %d is not registered", fd, fd)}
		}
		return nil
	}
	if got != want {
		if got == nil {
			return &fail{"lookup-missing", fmt.Sprintf("getConn(%d) returned nil for a live connection", fd)}
		}
		return &fail{"lookup-wrong", fmt.Sprintf("getConn(%d) returned the connection registered under fd %d", fd, gnet.VerifFdOf(got))}
	}
	if s := m.reg.SelfCheck(want); s != "" {
		return &fail{"position", fmt.Sprintf("connection fd=%d: %s", fd, s)}
	}
	return nil
}

func (m *model) full() *fail {
	if f := m.lookups(); f != nil {
		return f
	}
	return m.iterateAll()
}

// lookups checks the count and every live and recently removed number without iterating (an iteration that runs to
// its end may repair what an interrupted one left behind).
func (m *model) lookups() *fail {
	if int(m.reg.Count()) != len(m.live) {
		return &fail{"count", fmt.Sprintf("loadCount()=%d, %d connections are live", m.reg.Count(), len(m.live))}
	}
	for fd := range m.live {
		if f := m.checkFd(fd); f != nil {
			return f
		}
	}
	for _, fd := range m.removed {
		if f := m.checkFd(fd); f != nil {
			return f
		}
	}
	return nil
}

func (m *model) iterateAll() *fail {
	// iteration visits every live connection exactly once
	seen := map[int]int{}
	m.reg.Iterate(func(h any, fd int) bool {
		seen[fd]++
		if m.live[fd] != h {
			seen[-fd-1]++
		}
		return true
	})
	for fd := range m.live {
		if seen[fd] != 1 {
			return &fail{"iterate", fmt.Sprintf("iteration visited live connection fd=%d %d times", fd, seen[fd])}
		}
	}
	if len(seen) != len(m.live) {
		return &fail{"iterate", fmt.Sprintf("iteration visited %d distinct connections, %d are live", len(seen), len(m.live))}
	}
	return nil
}

func (m *model) add(fd int) *fail {
	h := m.reg.Add(fd, fd%256)
	m.live[fd] = h
	m.order = append(m.order, fd)
	m.trace = append(m.trace, fmt.Sprintf("add(%d)", fd))
	if gfdFd, loop, _, _ := gnet.VerifGfdOf(h); gfdFd != fd || loop != fd%256 {
		return &fail{"gfd", fmt.Sprintf("add(fd=%d, loop=%d): gfd carries fd=%d loop=%d", fd, fd%256, gfdFd, loop)}
	}
	return m.checkFd(fd)
}

func (m *model) del(fd int) *fail {
	h := m.live[fd]
	m.reg.Del(h)
	delete(m.live, fd)
	m.removed = append(m.removed, fd)
	if len(m.removed) > 16 {
		m.removed = m.removed[1:]
	}
	m.trace = append(m.trace, fmt.Sprintf("del(%d)", fd))
	if f := m.checkFd(fd); f != nil {
		return f
	}
	if int(m.reg.Count()) != len(m.live) {
		return &fail{"count", fmt.Sprintf("loadCount()=%d after removal, %d connections are live", m.reg.Count(), len(m.live))}
	}
	return nil
}

func (m *model) freshFd(r *vlib.Rand) int {
	for {
		var fd int
		switch r.Intn(6) {
		case 0:
			fd = r.Range(3, 40)
		case 1:
			fd = r.Range(3, 2000)
		case 2:
			fd = r.Pick(65535, 65536, 65537, 1<<20, 1<<24+3, 1<<30)
		default:
			fd = r.Range(3, 300000)
		}
		if _, ok := m.live[fd]; !ok {
			return fd
		}
	}
}

func runSeq(res *vlib.Result, seqSeed uint64, keys map[string]struct{}) int {
	r := vlib.NewRand(seqSeed)
	m := newModel()
	length := r.Pick(10, 30, 100, 300, 1000)
	prefill := r.Pick(0, 0, 1, 5, 50, 300)
	report := func(op, pos string, f *fail) {
		tr := m.trace
		if len(tr) > 60 {
			tr = tr[len(tr)-60:]
		}
		res.Violate(fmt.Sprintf("C14 %s %s %s pos=%s", gnet.VerifVariant, op, f.kind, pos), f.detail, map[string]any{"seq_seed": seqSeed, "tail_of_ops": tr, "live": len(m.live)})
	}
	for i := 0; i < prefill; i++ {
		if f := m.add(m.freshFd(r)); f != nil {
			report("add", "-", f)
			return i
		}
	}
	for i := 0; i < length; i++ {
		op := r.Intn(12)
		var f *fail
		opn, pos := "", "-"
		switch {
		case op < 4: // add
			opn = "add"
			fd := m.freshFd(r)
			if len(m.removed) > 0 && r.Chance(1, 3) {
				cand := m.removed[r.Intn(len(m.removed))]
				if _, ok := m.live[cand]; !ok {
					fd = cand
					opn = "re-add"
				}
			}
			f = m.add(fd)
		case op < 8: // remove
			where := []string{"first", "middle", "last", "random"}[r.Intn(4)]
			fd, ok := m.liveAt(r, where)
			if !ok {
				opn = "lookup-empty"
				f = m.checkFd(r.Range(3, 1000))
				break
			}
			opn = "del-" + where
			pos = m.posClass(m.live[fd])
			f = m.del(fd)
		case op < 9: // lookups of absent numbers
			opn = "lookup-absent"
			for k := 0; k < 8 && f == nil; k++ {
				f = m.checkFd(r.Range(0, 400000))
			}
		case op < 10: // iterate
			opn = "iterate"
			f = m.fullUnlessInterrupted()
		case op < 11: // iterate and remove every visited connection (shutdown pattern), then reuse
			opn = "iterate-remove-all"
			if r.Chance(2, 3) || m.noFull > 0 {
				opn = "check"
				f = m.fullUnlessInterrupted()
				break
			}
			visited := map[int]int{}
			var order []int
			m.reg.Iterate(func(h any, fd int) bool {
				visited[fd]++
				order = append(order, fd)
				if m.live[fd] != h {
					visited[-fd-1]++
				} else {
					m.reg.Del(h)
				}
				return true
			})
			m.trace = append(m.trace, fmt.Sprintf("iterate-remove-all(%d)", len(m.live)))
			for fd := range m.live {
				if visited[fd] != 1 {
					f = &fail{"iterate", fmt.Sprintf("removing iteration visited live connection fd=%d %d times (of %d live)", fd, visited[fd], len(m.live))}
					break
				}
			}
			if f == nil && len(visited) != len(m.live) {
				f = &fail{"iterate", fmt.Sprintf("removing iteration visited %d distinct connections, %d were live", len(visited), len(m.live))}
			}
			for fd := range m.live {
				m.removed = append(m.removed, fd)
				if len(m.removed) > 16 {
					m.removed = m.removed[1:]
				}
			}
			m.live = map[int]any{}
			m.order = nil
			if f == nil {
				f = m.full()
			}
		case op < 12 && r.Chance(1, 2): // an iteration the callback stops early; the registry must stay fully usable
			opn = "iterate-stop-early"
			stopAfter := 1
			if len(m.live) > 1 {
				stopAfter = r.Range(1, len(m.live))
			}
			visited := map[int]int{}
			n := 0
			m.reg.Iterate(func(h any, fd int) bool {
				visited[fd]++
				n++
				if m.live[fd] != h {
					visited[-fd-1]++
				}
				return n < stopAfter
			})
			m.trace = append(m.trace, fmt.Sprintf("iterate-stop-after(%d of %d)", stopAfter, len(m.live)))
			for fd, k := range visited {
				if fd < 0 || k != 1 {
					f = &fail{"iterate", fmt.Sprintf("stopped iteration visited fd=%d %d times / a stale handle", fd, k)}
				}
			}
			if f == nil && len(m.live) > 0 && n != stopAfter {
				f = &fail{"iterate", fmt.Sprintf("iteration asked to stop after %d connections visited %d (of %d live)", stopAfter, n, len(m.live))}
			}
			m.noFull = r.Pick(3, 6, 12) // the next operations run without a healing full iteration
		default: // count
			opn = "count"
			if int(m.reg.Count()) != len(m.live) {
				f = &fail{"count", fmt.Sprintf("loadCount()=%d, %d connections are live", m.reg.Count(), len(m.live))}
			}
		}
		if f == nil && (len(m.live) <= 64 || i%97 == 0) {
			if m.noFull > 0 && opn != "iterate-stop-early" {
				m.noFull--
			}
			if m.noFull > 0 {
				f = m.lookups()
			} else {
				f = m.full()
			}
		}
		if f != nil {
			report(opn, pos, f)
			return i
		}
		sz := "small"
		if len(m.live) > 64 {
			sz = "large"
		}
		if len(m.live) == 0 {
			sz = "empty"
		}
		keys[fmt.Sprintf("%s|%s|pos=%s|%s|rows=%d", gnet.VerifVariant, opn, pos, sz, m.reg.RowsInUse())] = struct{}{}
	}
	if f := m.full(); f != nil {
		report("final", "-", f)
	}
	return length
}

// boundary crosses the 65536-entry row boundary of the matrix.
func boundary(res *vlib.Result, seed uint64, keys map[string]struct{}) int {
	r := vlib.NewRand(seed)
	m := newModel()
	n := 70000
	steps := 0
	report := func(op, pos string, f *fail) {
		tr := m.trace
		if len(tr) > 40 {
			tr = tr[len(tr)-40:]
		}
		res.Violate(fmt.Sprintf("C14 %s boundary %s %s pos=%s", gnet.VerifVariant, op, f.kind, pos), f.detail, map[string]any{"boundary_seed": seed, "tail_of_ops": tr, "live": len(m.live)})
	}
	for i := 0; i < n; i++ {
		if f := m.add(3 + i*3 + int(seed%3)); f != nil {
			report("add", "-", f)
			return steps
		}
		steps++
	}
	if f := m.full(); f != nil {
		report("fill", "-", f)
		return steps
	}
	rem := 200
	for i := 0; i < rem; i++ {
		var fd int
		switch r.Intn(6) {
		case 0: // just below the boundary
			fd = m.order[65535-r.Intn(4)]
		case 1: // just above
			fd = m.order[65536+r.Intn(4)]
		case 2:
			fd, _ = m.liveAt(r, "last")
		case 3:
			fd, _ = m.liveAt(r, "first")
		default:
			fd, _ = m.liveAt(r, "random")
		}
		h, ok := m.live[fd]
		if !ok {
			continue
		}
		pos := m.posClass(h)
		if f := m.del(fd); f != nil {
			report("del", pos, f)
			return steps
		}
		steps++
		keys[fmt.Sprintf("%s|boundary-del|pos=%s|rows=%d", gnet.VerifVariant, pos, m.reg.RowsInUse())] = struct{}{}
		if i%20 == 0 {
			if f := m.full(); f != nil {
				report("del", pos, f)
				return steps
			}
		}
		for k := r.Pick(0, 0, 1, 2, 3); k > 0; k-- { // several registrations in a row after a removal
			nf := m.freshFd(r) + 400000
			for m.live[nf] != nil {
				nf++
			}
			if f := m.add(nf); f != nil {
				report("add", "-", f)
				return steps
			}
			steps++
		}
		if i%7 == 3 { // spot-check entries on both sides of the row boundary
			for _, idx := range []int{65530, 65535, 65536, 65537, 65540, len(m.order) - 1} {
				if idx < len(m.order) {
					if _, ok := m.live[m.order[idx]]; ok {
						if f := m.checkFd(m.order[idx]); f != nil {
							report("lookup-after-add", pos, f)
							return steps
						}
					}
				}
			}
		}
	}
	if f := m.full(); f != nil {
		report("final", "-", f)
	}
	return steps
}

// boundaryDrain fills one registry to exactly / just beyond the row boundary and empties it again in a given order:
// the per-row bookkeeping must stay exact while rows become empty (no panic, no live connection lost from lookups,
// count 0 and an empty iteration at the end, and the registry usable afterwards).
func boundaryDrain(res *vlib.Result, seed uint64, extra int, order string, keys map[string]struct{}) int {
	r := vlib.NewRand(seed)
	m := newModel()
	steps := 0
	failf := func(op string, f *fail) {
		tr := m.trace
		if len(tr) > 40 {
			tr = tr[len(tr)-40:]
		}
		res.Violate(fmt.Sprintf("C14 %s boundary-drain %s %s order=%s population=65536+%d", gnet.VerifVariant, op, f.kind, order, extra), f.detail, map[string]any{"seed": seed, "tail_of_ops": tr, "live": len(m.live)})
	}
	p, msg := vlib.Catch(func() {
		for i := 0; i < 65536+extra; i++ {
			if f := m.add(3 + i); f != nil {
				failf("add", f)
				return
			}
			steps++
		}
		fds := append([]int(nil), m.order...)
		switch order {
		case "last-first":
			for i, j := 0, len(fds)-1; i < j; i, j = i+1, j-1 {
				fds[i], fds[j] = fds[j], fds[i]
			}
		case "random":
			for i := len(fds) - 1; i > 0; i-- {
				j := r.Intn(i + 1)
				fds[i], fds[j] = fds[j], fds[i]
			}
		case "middle-out":
			// the entries around the boundary go first
			sort.Slice(fds, func(a, b int) bool {
				da, db := fds[a]-3-65536, fds[b]-3-65536
				if da < 0 {
					da = -da
				}
				if db < 0 {
					db = -db
				}
				return da < db
			})
		}
		for i, fd := range fds {
			if f := m.del(fd); f != nil {
				failf("del", f)
				return
			}
			steps++
			left := len(fds) - 1 - i
			// the survivors stay reachable: all of them while few are left, a sample otherwise
			if left <= 40 || i%4099 == 0 || (left >= 65530 && left <= 65540) {
				var f *fail
				if left <= 40 {
					f = m.lookups()
				} else {
					for k := 0; k < 12 && f == nil; k++ {
						f = m.checkFd(fds[i+1+r.Intn(left)])
					}
				}
				if f != nil {
					failf("lookup-survivor", f)
					return
				}
			}
		}
		if f := m.full(); f != nil {
			failf("empty", f)
			return
		}
		for i := 0; i < 5; i++ {
			if f := m.add(900000 + i); f != nil {
				failf("add-after-drain", f)
				return
			}
		}
		if f := m.full(); f != nil {
			failf("after-drain", f)
		}
	})
	if p {
		res.Violate(fmt.Sprintf("C14 %s boundary-drain panic order=%s population=65536+%d", gnet.VerifVariant, order, extra), msg, map[string]any{"seed": seed, "live": len(m.live)})
	}
	keys[fmt.Sprintf("%s|boundary-drain|%s|+%d", gnet.VerifVariant, order, extra)] = struct{}{}
	return steps
}

func main() {
	res := vlib.Start("reg")
	res.Obs("variant_"+gnet.VerifVariant, 1)
	nseq := 1500
	nb := 1
	if res.Thorough() {
		nseq = 40000
		nb = 6
	}
	if *vlib.FlagN > 0 {
		nseq = *vlib.FlagN
	}
	keys := map[string]struct{}{}
	root := vlib.NewRand(res.Seed)
	total := 0
	for i := 0; i < nseq && res.NViolations() < 50 && !res.TimeUp(); i++ {
		total += runSeq(res, root.U64(), keys)
	}
	for i := 0; i < nb && res.NViolations() < 50; i++ {
		total += boundary(res, res.Seed*31+uint64(i), keys)
	}
	drains := []struct {
		extra int
		order string
	}{{0, "first-last"}, {1, "last-first"}, {5, "random"}, {2, "middle-out"}}
	if res.Thorough() {
		drains = append(drains, []struct {
			extra int
			order string
		}{{0, "random"}, {1, "first-last"}, {65536, "random"}, {3, "last-first"}, {70000, "middle-out"}}...)
	}
	for i, d := range drains {
		if res.NViolations() >= 50 {
			break
		}
		total += boundaryDrain(res, res.Seed*37+uint64(i), d.extra, d.order, keys)
	}
	for k := range keys {
		res.Distinct(k)
	}
	res.Eval(int64(total))
	res.Obs("sequences", int64(nseq))
	res.Obs("boundary_runs", int64(nb))
	res.Sample(map[string]any{"variant": gnet.VerifVariant, "sequence": "prefill 0..300, then 10..1000 ops of add/re-add/del(first|middle|last|random)/lookup/iterate/iterate-remove-all/count, full model comparison after each step while <=64 live"})
	res.Finish()
}
