//go:build verif

// Harness pool decides C12 directly on the pools: a ledger of outstanding memory ranges,
// handle-specific fill patterns, hostile Put shapes, GCs that empty the sync.Pools.
package main

import (
	"fmt"
	"os"
	"runtime"
	"sort"
	"sync"
	"unsafe"

	"github.com/panjf2000/gnet/v2/pkg/buffer/ring"
	"github.com/panjf2000/gnet/v2/pkg/pool/byteslice"
	"github.com/panjf2000/gnet/v2/pkg/pool/ringbuffer"
	"github.com/panjf2000/gnet/v2/zzverif/vlib"
)

type iv struct {
	lo, hi uintptr // [lo, hi)
	id     int
}

// ivmap is a set of disjoint address ranges.
type ivmap struct{ v []iv }

func (m *ivmap) find(lo, hi uintptr) (iv, bool) { // any range overlapping [lo,hi)
	i := sort.Search(len(m.v), func(i int) bool { return m.v[i].hi > lo })
	if i < len(m.v) && m.v[i].lo < hi {
		return m.v[i], true
	}
	return iv{}, false
}

func (m *ivmap) add(x iv) {
	i := sort.Search(len(m.v), func(i int) bool { return m.v[i].lo >= x.lo })
	m.v = append(m.v, iv{})
	copy(m.v[i+1:], m.v[i:])
	m.v[i] = x
}

func (m *ivmap) del(lo uintptr) bool {
	i := sort.Search(len(m.v), func(i int) bool { return m.v[i].lo >= lo })
	if i < len(m.v) && m.v[i].lo == lo {
		m.v = append(m.v[:i], m.v[i+1:]...)
		return true
	}
	return false
}

// cut removes [lo,hi) from every range (ranges may be split).
func (m *ivmap) cut(lo, hi uintptr) {
	var out []iv
	for _, x := range m.v {
		if x.hi <= lo || x.lo >= hi {
			out = append(out, x)
			continue
		}
		if x.lo < lo {
			out = append(out, iv{x.lo, lo, x.id})
		}
		if x.hi > hi {
			out = append(out, iv{hi, x.hi, x.id})
		}
	}
	m.v = out
}

func rng(b []byte) (uintptr, uintptr) {
	p := uintptr(unsafe.Pointer(unsafe.SliceData(b)))
	return p, p + uintptr(cap(b))
}

type held struct {
	b    []byte // full-capacity view of what the harness owns
	id   int
	from string
}

func pat(id, i int) byte {
	return byte(vlib.Mix(uint64(id)*0x9e37+uint64(i>>3)) >> (8 * (uint(i) & 7)))
}

func fill(b []byte, id int) {
	b = b[:cap(b)]
	if len(b) > 1<<16 { // big slices: ends and a stride
		for i := 0; i < 4096; i++ {
			b[i] = pat(id, i)
			b[len(b)-1-i] = pat(id, len(b)-1-i)
		}
		for i := 4096; i < len(b)-4096; i += 4093 {
			b[i] = pat(id, i)
		}
		return
	}
	for i := range b {
		b[i] = pat(id, i)
	}
}

func verify(b []byte, id int) int {
	b = b[:cap(b)]
	if len(b) > 1<<16 {
		for i := 0; i < 4096; i++ {
			if b[i] != pat(id, i) {
				return i
			}
			if j := len(b) - 1 - i; b[j] != pat(id, j) {
				return j
			}
		}
		for i := 4096; i < len(b)-4096; i += 4093 {
			if b[i] != pat(id, i) {
				return i
			}
		}
		return -1
	}
	for i := range b {
		if b[i] != pat(id, i) {
			return i
		}
	}
	return -1
}

func pickSize(r *vlib.Rand, maxExp int) int {
	k := r.Intn(maxExp + 1)
	switch r.Intn(8) {
	case 0:
		return r.Pick(0, 0, 1, 2, 3)
	case 1:
		return 1<<k - 1
	case 2:
		return 1 << k
	case 3:
		return 1<<k + 1
	case 4:
		return r.Range(1, 100)
	case 5:
		return r.Pick(-1, -100)
	default:
		if k > 16 {
			k = r.Intn(17)
		}
		return r.Range(1<<k, 1<<(k+1))
	}
}

func sizeClassName(n int) string {
	switch {
	case n < 0:
		return "neg"
	case n == 0:
		return "0"
	case n&(n-1) == 0:
		return "2^k"
	case (n+1)&n == 0:
		return "2^k-1"
	case (n-1)&(n-2) == 0:
		return "2^k+1"
	}
	return "other"
}

// ledgerSeq runs one sequential history on a fresh pool.
func ledgerSeq(res *vlib.Result, seqSeed uint64, maxExp int, keys map[string]struct{}) int {
	r := vlib.NewRand(seqSeed)
	pool := new(byteslice.Pool)
	var out ivmap     // outstanding ranges (harness-owned)
	var donated ivmap // ranges given to the pool and not handed out again
	hs := map[int]*held{}
	keep := [][]byte{} // everything ever put: keeps the memory alive so addresses stay meaningful
	nextID := 1
	var trace []string
	ops := r.Pick(20, 60, 200, 600)
	budget := 1 << 28 // bytes held per sequence
	heldBytes := 0
	viol := func(sig, detail string) {
		if len(trace) > 50 {
			trace = trace[len(trace)-50:]
		}
		res.Violate(sig, detail, map[string]any{"seq_seed": seqSeed, "tail_of_ops": trace})
	}
	for i := 0; i < ops; i++ {
		switch op := r.Intn(10); {
		case op < 5: // Get
			n := pickSize(r, maxExp)
			if n > 0 && heldBytes+2*n > budget {
				n = r.Range(1, 4096)
			}
			trace = append(trace, fmt.Sprintf("Get(%d)", n))
			var b []byte
			if p, msg := vlib.Catch(func() { b = pool.Get(n) }); p {
				viol("C12 byteslice.Get panic size="+sizeClassName(n), fmt.Sprintf("Get(%d) panicked: %s", n, msg))
				return i
			}
			if n <= 0 {
				if len(b) != 0 {
					viol("C12 byteslice.Get length size="+sizeClassName(n), fmt.Sprintf("Get(%d) returned len %d", n, len(b)))
					return i
				}
				keys["get|"+sizeClassName(n)+"|empty"] = struct{}{}
				continue
			}
			if len(b) != n || cap(b) < n {
				viol("C12 byteslice.Get length size="+sizeClassName(n), fmt.Sprintf("Get(%d) returned len=%d cap=%d", n, len(b), cap(b)))
				return i
			}
			lo, hi := rng(b)
			if o, ok := out.find(lo, hi); ok {
				viol("C12 byteslice.Get aliases outstanding memory", fmt.Sprintf("Get(%d) returned [%#x,%#x) which overlaps [%#x,%#x) still held as handle %d (%s)", n, lo, hi, o.lo, o.hi, o.id, hs[o.id].from))
				return i
			}
			src := "fresh"
			if d, ok := donated.find(lo, lo+1); ok {
				src = "recycled"
				if hi > d.hi {
					viol("C12 byteslice.Get exceeds the donated slice's capacity", fmt.Sprintf("Get(%d) returned [%#x,%#x) (cap %d) starting inside donated range [%#x,%#x): %d bytes beyond the donor's capacity", n, lo, hi, cap(b), d.lo, d.hi, hi-d.hi))
					return i
				}
			}
			donated.cut(lo, hi)
			id := nextID
			nextID++
			out.add(iv{lo, hi, id})
			hs[id] = &held{b: b[:cap(b)], id: id, from: fmt.Sprintf("Get(%d)", n)}
			heldBytes += cap(b)
			fill(b, id)
			keys["get|"+sizeClassName(n)+"|"+src] = struct{}{}
		case op < 9: // Put of something held (various shapes) or of foreign memory
			shape := r.Intn(7)
			var h *held
			for _, x := range hs {
				if x.from != "canary" {
					h = x
					break
				}
			}
			if h == nil || shape == 6 {
				// foreign memory: an odd-capacity make or a window of a larger array with canaries
				c := r.Pick(1, 3, 5, 100, 1000, 1023, 1025, 4097, 65537)
				big := make([]byte, c+64)
				for j := range big {
					big[j] = 0xA5
				}
				win := big[32 : 32+c : 32+c]
				id := nextID
				nextID++
				lo, hi := rng(win)
				// the 32-byte margins stay with the harness as canaries
				out.add(iv{lo - 32, lo, id})
				out.add(iv{hi, hi + 32, id})
				hs[id] = &held{b: big, id: id, from: "canary"}
				trace = append(trace, fmt.Sprintf("Put(foreign window cap=%d)", c))
				keep = append(keep, big)
				pool.Put(win)
				donated.add(iv{lo, hi, id})
				keys["put|foreign-window|"+sizeClassName(c)] = struct{}{}
				continue
			}
			if at := verify(h.b, h.id); at >= 0 {
				viol("C12 held slice was overwritten", fmt.Sprintf("handle %d (%s, cap %d): byte %d changed while the slice was held exclusively", h.id, h.from, cap(h.b), at))
				return i
			}
			lo, hi := rng(h.b)
			c := cap(h.b)
			out.del(lo)
			delete(hs, h.id)
			heldBytes -= c
			keep = append(keep, h.b)
			var put []byte
			var sname string
			switch shape {
			case 0, 1: // as obtained
				put, sname = h.b, "whole"
			case 2: // shorter length, same capacity
				put, sname = h.b[:r.Intn(c+1)], "shorter-len"
			case 3: // tail sub-slice b[k:]
				k := r.Intn(c)
				put, sname = h.b[k:], "tail"
				if k > 0 { // the head stays with the harness
					id := nextID
					nextID++
					hb := h.b[:k:k]
					out.add(iv{lo, lo + uintptr(k), id})
					hs[id] = &held{b: hb, id: id, from: "head-kept"}
					heldBytes += k
					fill(hb, id)
				}
			case 4: // head with clipped capacity b[:k:k]; the tail stays with the harness
				k := 1 + r.Intn(c)
				put, sname = h.b[:k:k], "head-clipped"
				if k < c {
					id := nextID
					nextID++
					tb := h.b[k:c:c]
					out.add(iv{lo + uintptr(k), hi, id})
					hs[id] = &held{b: tb, id: id, from: "tail-kept"}
					heldBytes += c - k
					fill(tb, id)
				}
			case 5: // zero-length, zero-capacity view
				put, sname = h.b[:0:0], "zero-cap"
				// nothing is donated: everything stays with the harness
				id := nextID
				nextID++
				out.add(iv{lo, hi, id})
				hs[id] = &held{b: h.b, id: id, from: "kept-after-zero-put"}
				heldBytes += c
				fill(h.b, id)
			}
			trace = append(trace, fmt.Sprintf("Put(%s cap=%d of %d)", sname, cap(put), c))
			plo, phi := rng(put)
			if p, msg := vlib.Catch(func() { pool.Put(put) }); p {
				viol("C12 byteslice.Put panic shape="+sname, fmt.Sprintf("Put(cap %d) panicked: %s", cap(put), msg))
				return i
			}
			if cap(put) > 0 {
				donated.add(iv{plo, phi, 0})
			}
			keys["put|"+sname+"|"+sizeClassName(cap(put))] = struct{}{}
		default: // GC twice: empties the sync.Pools
			if r.Chance(1, 4) {
				trace = append(trace, "GC,GC")
				runtime.GC()
				runtime.GC()
				keys["gc"] = struct{}{}
			}
		}
	}
	for _, h := range hs {
		if at := verify(h.b, h.id); at >= 0 && h.from != "canary" {
			viol("C12 held slice was overwritten", fmt.Sprintf("handle %d (%s, cap %d): byte %d changed while the slice was held exclusively", h.id, h.from, cap(h.b), at))
			break
		}
		if h.from == "canary" {
			for j, c := range h.b {
				if (j < 32 || j >= len(h.b)-32) && c != 0xA5 {
					viol("C12 memory next to a donated slice was overwritten", fmt.Sprintf("canary byte %d next to a foreign window of capacity %d changed", j, len(h.b)-64))
					break
				}
			}
		}
	}
	runtime.KeepAlive(keep) // the addresses recorded in the ledgers stay meaningful until here
	runtime.KeepAlive(hs)
	return ops
}

// concurrent histories on one shared pool: disjointness under a mutex-protected ledger plus patterns.
func conc(res *vlib.Result, seed uint64, goroutines, opsPer int) int64 {
	pool := new(byteslice.Pool)
	var mu sync.Mutex
	var out ivmap
	var wg sync.WaitGroup
	var total int64
	for g := 0; g < goroutines; g++ {
		wg.Add(1)
		go func(g int) {
			defer wg.Done()
			r := vlib.NewRand(seed*977 + uint64(g))
			type mine struct {
				b  []byte
				id int
			}
			var my []mine
			id := g << 24
			for i := 0; i < opsPer; i++ {
				if len(my) < 8 && r.Chance(3, 5) {
					n := r.Pick(1, 2, 7, 64, 100, 511, 512, 513, 4096, 5000, 65536)
					b := pool.Get(n)
					if len(b) != n || cap(b) < n {
						res.Violate("C12 byteslice.Get length size="+sizeClassName(n), fmt.Sprintf("concurrent Get(%d) returned len=%d cap=%d", n, len(b), cap(b)), nil)
						return
					}
					lo, hi := rng(b)
					mu.Lock()
					o, ok := out.find(lo, hi)
					if !ok {
						id++
						out.add(iv{lo, hi, id})
					}
					mu.Unlock()
					if ok {
						res.Violate("C12 byteslice.Get aliases outstanding memory", fmt.Sprintf("concurrent Get(%d) by goroutine %d returned [%#x,%#x) overlapping [%#x,%#x) held by goroutine %d", n, g, lo, hi, o.lo, o.hi, o.id>>24), nil)
						return
					}
					fill(b, id)
					my = append(my, mine{b[:cap(b)], id})
				} else if len(my) > 0 {
					k := r.Intn(len(my))
					m := my[k]
					my = append(my[:k], my[k+1:]...)
					if at := verify(m.b, m.id); at >= 0 {
						res.Violate("C12 held slice was overwritten", fmt.Sprintf("goroutine %d: byte %d of a held slice (cap %d) changed", g, at, cap(m.b)), nil)
						return
					}
					lo, _ := rng(m.b)
					mu.Lock()
					okd := out.del(lo)
					mu.Unlock()
					if !okd {
						res.Note("harness: ledger entry for %#x missing at Put (goroutine %d)", lo, g)
					}
					pool.Put(m.b)
				}
				if g == 0 && i%5000 == 4999 {
					runtime.GC()
				}
			}
			mu.Lock()
			for _, m := range my { // this goroutine is done: its slices become garbage, so forget their ranges
				lo, _ := rng(m.b)
				out.del(lo)
			}
			total += int64(opsPer)
			mu.Unlock()
			runtime.KeepAlive(my)
		}(g)
	}
	wg.Wait()
	return total
}

// rings exercises the ring-buffer pool.
func rings(res *vlib.Result, seed uint64, ops int) int64 {
	r := vlib.NewRand(seed)
	pool := new(ringbuffer.Pool)
	type hr struct {
		rb *ring.Buffer
		id int
		n  int
	}
	var heldR []hr
	outstanding := map[*ring.Buffer]int{}
	id := 0
	for i := 0; i < ops; i++ {
		if len(heldR) < 16 && r.Chance(3, 5) {
			rb := pool.Get()
			if prev, ok := outstanding[rb]; ok {
				res.Violate("C12 ringbuffer.Get returned a ring that is still held", fmt.Sprintf("ring %p handed out again while held as handle %d", rb, prev), nil)
				return int64(i)
			}
			if !rb.IsEmpty() || rb.Buffered() != 0 {
				res.Violate("C12 ringbuffer.Get returned a non-empty ring", fmt.Sprintf("Buffered()=%d IsEmpty()=%v", rb.Buffered(), rb.IsEmpty()), nil)
				return int64(i)
			}
			id++
			n := r.Pick(1, 10, 64, 65, 1000, 1024, 5000, 70000)
			p := make([]byte, n)
			for j := range p {
				p[j] = pat(id, j)
			}
			rb.Write(p)
			outstanding[rb] = id
			heldR = append(heldR, hr{rb, id, n})
		} else if len(heldR) > 0 {
			k := r.Intn(len(heldR))
			h := heldR[k]
			heldR = append(heldR[:k], heldR[k+1:]...)
			got := h.rb.Bytes()
			bad := len(got) != h.n
			for j := 0; !bad && j < len(got); j++ {
				bad = got[j] != pat(h.id, j)
			}
			if bad {
				res.Violate("C12 pooled ring content was overwritten while held", fmt.Sprintf("ring handle %d: %d bytes written, content differs or has length %d", h.id, h.n, len(got)), nil)
				return int64(i)
			}
			delete(outstanding, h.rb)
			pool.Put(h.rb)
		}
		if i%20000 == 19999 {
			runtime.GC()
		}
	}
	return int64(ops)
}

func main() {
	res := vlib.Start("pool")
	mode := *vlib.FlagMode
	nseq := 3000
	maxExp := 22
	concOps := 200000
	ringOps := 300000
	if res.Thorough() {
		nseq, maxExp, concOps, ringOps = 12000, 26, 2000000, 3000000
	}
	if *vlib.FlagN > 0 {
		nseq = *vlib.FlagN
		if nseq < 1000 {
			maxExp, concOps, ringOps = 20, nseq*150, nseq*200
		}
	}
	keys := map[string]struct{}{}
	root := vlib.NewRand(res.Seed)
	if mode == "" || mode == "all" || mode == "ledger" {
		var total int
		for i := 0; i < nseq && res.NViolations() < 20 && !res.TimeUp(); i++ {
			total += ledgerSeq(res, root.U64(), maxExp, keys)
			if i%50 == 49 {
				runtime.GC()
			}
		}
		res.Eval(int64(total))
		res.Obs("ledger_sequences", int64(nseq))
		res.Obs("ledger_ops", int64(total))
	}
	if mode == "" || mode == "all" || mode == "conc" {
		for _, g := range []int{2, 4, 16} {
			res.Eval(conc(res, res.Seed+uint64(g), g, concOps/g))
			keys[fmt.Sprintf("conc|goroutines=%d", g)] = struct{}{}
		}
	}
	if mode == "" || mode == "all" || mode == "ring" {
		res.Eval(rings(res, res.Seed, ringOps))
		keys["ringpool"] = struct{}{}
	}
	if mode == "" || mode == "all" || mode == "hugeodd" {
		// odd capacities above 1 GiB: the memory is only reserved, never touched
		for _, cp := range []int{1<<30 + 4096, 1<<30 + 1<<29 + 7, 1<<31 - 4096} {
			pool := new(byteslice.Pool)
			donor := make([]byte, cp)
			dlo, dhi := rng(donor)
			pool.Put(donor)
			for _, n := range []int{1<<30 + 1, cp - 100, 1 << 30, 1<<29 + 1} {
				b := pool.Get(n)
				if len(b) != n || cap(b) < n {
					res.Violate("C12 byteslice.Get length size="+sizeClassName(n), fmt.Sprintf("Get(%d) returned len=%d cap=%d", n, len(b), cap(b)), nil)
				}
				lo, hi := rng(b)
				if lo >= dlo && lo < dhi && hi > dhi {
					res.Violate("C12 byteslice.Get exceeds the donated slice's capacity", fmt.Sprintf("after Put of a slice with capacity %d, Get(%d) returned cap %d starting inside the donated array: %d bytes beyond the donor's capacity", cp, n, cap(b), hi-dhi), map[string]any{"donor_cap": cp, "get": n})
				}
				res.Eval(1)
				if lo >= dlo && lo < dhi {
					break // the donor is handed out (and held) now
				}
			}
			keys[fmt.Sprintf("hugeodd|cap=2^30+%d", cp-1<<30)] = struct{}{}
			runtime.KeepAlive(donor) // the donated address range must stay allocated while it is compared
			donor = nil
			runtime.GC()
		}
	}
	if mode == "huge" { // thorough only: a handful of sizes up to 2^31-1, sequentially
		pool := new(byteslice.Pool)
		for _, n := range []int{1<<30 - 1, 1 << 30, 1<<30 + 1, 1<<31 - 1} {
			b := pool.Get(n)
			if len(b) != n || cap(b) < n {
				res.Violate("C12 byteslice.Get length size="+sizeClassName(n), fmt.Sprintf("Get(%d) returned len=%d cap=%d", n, len(b), cap(b)), nil)
			}
			b[0], b[n-1] = 1, 2
			pool.Put(b)
			c := pool.Get(n/2 + 1)
			if len(c) != n/2+1 {
				res.Violate("C12 byteslice.Get length size=other", fmt.Sprintf("Get(%d) returned len=%d", n/2+1, len(c)), nil)
			}
			c[len(c)-1] = 3
			res.Eval(2)
			keys[fmt.Sprintf("huge|%d", n)] = struct{}{}
			b, c = nil, nil
			runtime.GC()
		}
	}
	for k := range keys {
		res.Distinct(k)
	}
	res.Sample(map[string]any{"ledger_sequence": "Get(sizes 0,1,2^k-1,2^k,2^k+1,odd,negative) / Put(whole | shorter-len | tail b[k:] | head b[:k:k] | zero-cap | foreign window with canaries) / GC,GC on a fresh Pool; every Get checked for len/cap, disjointness from all outstanding ranges and containment in the donated range"})
	_ = os.Stdout
	res.Finish()
}
