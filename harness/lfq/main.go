//go:build verif

// Harness lfq decides C13: the lock-free task queue as a linearizable FIFO queue.
//
//	(i)  many short histories recorded at the call boundary, checked by porcupine (tools/vchk)
//	(ii) long stress histories decided by polynomial checks that unique values make sound
//	(iii) Length/IsEmpty at quiescent points
//
// The queue source is point-instrumented (flavour "points"): every atomic load / CAS / add is
// preceded by a yield point that perturbs the schedule.
package main

import (
	"bufio"
	"encoding/json"
	"fmt"
	"os"
	"os/exec"
	"path/filepath"
	"sort"
	"sync"
	"sync/atomic"

	"github.com/panjf2000/gnet/v2/pkg/queue"
	"github.com/panjf2000/gnet/v2/pkg/vsys"
	"github.com/panjf2000/gnet/v2/zzverif/vlib"
)

type Op struct {
	C    int   `json:"c"`
	Enq  bool  `json:"e"`
	V    int   `json:"v"` // enqueued value, or dequeued value (-1 = empty)
	Call int64 `json:"t0"`
	Ret  int64 `json:"t1"`
}

var clock atomic.Int64

func enq(q queue.AsyncTaskQueue, c, v int) Op {
	t := &queue.Task{Param: v}
	call := clock.Add(1)
	q.Enqueue(t)
	ret := clock.Add(1)
	return Op{c, true, v, call, ret}
}

func deq(q queue.AsyncTaskQueue, c int) Op {
	call := clock.Add(1)
	t := q.Dequeue()
	ret := clock.Add(1)
	v := -1
	if t != nil {
		v = t.Param.(int)
	}
	return Op{c, false, v, call, ret}
}

func overlaps(ops []Op) int {
	n := 0
	for i := range ops {
		for j := i + 1; j < len(ops); j++ {
			if ops[i].C != ops[j].C && ops[i].Call < ops[j].Ret && ops[j].Call < ops[i].Ret {
				n++
			}
		}
	}
	return n
}

// polyCheck runs the polynomial checks on a drained history. Returns a failure description or "".
func polyCheck(ops []Op, drained bool) (kind, detail string) {
	type val struct {
		ec, er, dc, dr int64
		prod, idx      int
		deqs           int
	}
	vals := map[int]*val{}
	for _, o := range ops {
		if o.Enq {
			if vals[o.V] != nil {
				return "harness", "duplicate enqueue value"
			}
			vals[o.V] = &val{ec: o.Call, er: o.Ret, prod: o.C, dc: 1 << 62, dr: 1 << 62}
		}
	}
	var empties []Op
	for _, o := range ops {
		if o.Enq {
			continue
		}
		if o.V == -1 {
			empties = append(empties, o)
			continue
		}
		v := vals[o.V]
		if v == nil {
			return "phantom", fmt.Sprintf("Dequeue returned value %d that was never enqueued", o.V)
		}
		v.deqs++
		if v.deqs > 1 {
			return "duplicate", fmt.Sprintf("value %d was dequeued twice", o.V)
		}
		if o.Ret < v.ec {
			return "phantom", fmt.Sprintf("value %d was dequeued (returned at %d) before its Enqueue was called (%d)", o.V, o.Ret, v.ec)
		}
		v.dc, v.dr = o.Call, o.Ret
	}
	if drained {
		for k, v := range vals {
			if v.deqs != 1 {
				return "lost", fmt.Sprintf("value %d was enqueued but never dequeued although the queue was drained until it reported empty", k)
			}
		}
	}
	// FIFO inversion: er(a) < ec(b) but dr(b) < dc(a)
	list := make([]*val, 0, len(vals))
	keys := make([]int, 0, len(vals))
	for k := range vals {
		keys = append(keys, k)
	}
	sort.Ints(keys)
	byKey := map[*val]int{}
	for _, k := range keys {
		list = append(list, vals[k])
		byKey[vals[k]] = k
	}
	byEc := append([]*val(nil), list...)
	sort.Slice(byEc, func(i, j int) bool { return byEc[i].ec < byEc[j].ec })
	byEr := append([]*val(nil), list...)
	sort.Slice(byEr, func(i, j int) bool { return byEr[i].er < byEr[j].er })
	var maxDc int64 = -1
	var maxA *val
	p := 0
	for _, b := range byEc {
		for p < len(byEr) && byEr[p].er < b.ec {
			if byEr[p].dc > maxDc {
				maxDc, maxA = byEr[p].dc, byEr[p]
			}
			p++
		}
		if maxA != nil && b.deqs == 1 && maxDc > b.dr {
			return "fifo-inversion", fmt.Sprintf("value %d (producer %d) was enqueued entirely before value %d (producer %d) but dequeued entirely after it", byKey[maxA], maxA.prod, byKey[b], b.prod)
		}
	}
	// wrong empty: exists v with er(v) < call(empty) and dc(v) > ret(empty)
	prefMax := make([]int64, len(byEr))
	var pm int64 = -1
	for i, v := range byEr {
		if v.dc > pm {
			pm = v.dc
		}
		prefMax[i] = pm
	}
	for _, e := range empties {
		i := sort.Search(len(byEr), func(i int) bool { return byEr[i].er >= e.Call })
		if i > 0 && prefMax[i-1] > e.Ret {
			return "wrong-empty", fmt.Sprintf("Dequeue (client %d, %d..%d) reported empty although a value whose Enqueue had returned before the call was still in the queue after it returned", e.C, e.Call, e.Ret)
		}
	}
	return "", ""
}

func main() {
	res := vlib.Start("lfq")
	if !vsys.Pointed {
		res.Note("built without yield points: schedules come from the Go scheduler only")
	}
	mode := *vlib.FlagMode
	if mode == "" {
		mode = "short"
	}
	vsys.SetSeed(res.Seed)
	vsys.Enabled.Store(true)
	pts := vsys.PointsIn("pkg/queue/")
	switch mode {
	case "short":
		short(res, pts)
	case "long":
		long(res, pts)
	}
	res.Finish()
}

func short(res *vlib.Result, pts []int) {
	n := 20000
	if res.Thorough() {
		n = 400000
	}
	if *vlib.FlagN > 0 {
		n = *vlib.FlagN
	}
	scratch := os.Getenv("VERIF_SCRATCH")
	if scratch == "" {
		scratch = os.TempDir()
	}
	hp := filepath.Join(scratch, fmt.Sprintf("lfq-hist-%d.jsonl", os.Getpid()))
	f, err := os.Create(hp)
	if err != nil {
		panic(err)
	}
	defer os.Remove(hp)
	w := bufio.NewWriterSize(f, 1<<20)
	enc := json.NewEncoder(w)
	sigs := map[uint64]struct{}{}
	var totalOps, withOverlap int64
	var hists [][]Op
	for h := 0; h < n && !res.TimeUp(); h++ {
		r := vlib.NewRand(res.Seed*7919 + uint64(h))
		q := queue.NewLockFreeQueue()
		K := r.Range(2, 3)
		per := r.Range(3, 5)
		clock.Store(0)
		hist := make([][]Op, K)
		// optional sequential prefix so that concurrent dequeues meet a non-empty queue
		pre := r.Pick(0, 0, 1, 2)
		for i := 0; i < pre; i++ {
			hist[0] = append(hist[0], enq(q, 0, 9000+i))
		}
		vsys.ClearFocus()
		if r.Chance(3, 4) {
			vsys.AddFocus(pickPoint(r, pts), 1+r.Intn(3), int64(20000+r.Intn(200000)))
		}
		if r.Chance(1, 3) {
			vsys.AddFocus(pickPoint(r, pts), 1+r.Intn(3), int64(20000+r.Intn(200000)))
		}
		vsys.BeginIter()
		var wg sync.WaitGroup
		start := make(chan struct{})
		for c := 0; c < K; c++ {
			wg.Add(1)
			cr := r.Fork()
			go func(c int) {
				defer wg.Done()
				<-start
				for j := 0; j < per; j++ {
					if cr.Intn(100) < 55 {
						hist[c] = append(hist[c], enq(q, c, c*1000+j))
					} else {
						hist[c] = append(hist[c], deq(q, c))
					}
				}
			}(c)
		}
		close(start)
		wg.Wait()
		sig, _ := vsys.EndIter()
		vsys.ClearFocus()
		// quiescent: Length / IsEmpty agree with the history
		var inq int32
		for _, hc := range hist {
			for _, o := range hc {
				if o.Enq {
					inq++
				} else if o.V != -1 {
					inq--
				}
			}
		}
		if got := q.Length(); got != inq || q.IsEmpty() != (inq == 0) {
			var all []Op
			for _, hc := range hist {
				all = append(all, hc...)
			}
			res.Violate("C13 quiescent Length/IsEmpty disagree with content", fmt.Sprintf("no operation in flight: Length()=%d IsEmpty()=%v, history holds %d tasks", got, q.IsEmpty(), inq), map[string]any{"history": all, "h": h})
		}
		// sequential drain by client 0
		for {
			o := deq(q, 0)
			hist[0] = append(hist[0], o)
			if o.V == -1 {
				break
			}
		}
		var all []Op
		for _, hc := range hist {
			all = append(all, hc...)
		}
		totalOps += int64(len(all))
		if overlaps(all) > 0 {
			withOverlap++
			sigs[sig] = struct{}{}
		}
		if kind, detail := polyCheck(all, true); kind != "" {
			res.Violate("C13 history "+kind, detail, map[string]any{"history": all, "h": h})
		}
		enc.Encode(all)
		if h < 2 {
			res.Sample(map[string]any{"history": all})
		}
		if len(hists) < 0 {
			hists = append(hists, all)
		}
	}
	w.Flush()
	f.Close()
	// porcupine
	vchk := filepath.Join(os.Getenv("VERIF_DIR"), "bin", "vchk")
	vp := hp + ".verdict"
	defer os.Remove(vp)
	out, err := exec.Command(vchk, "queue", hp, vp).CombinedOutput()
	if err != nil {
		res.Inconc("vchk failed: %v %s", err, string(out))
	} else {
		var v struct {
			Ok, Illegal, Unknown, Ops int
			WorstMs                   float64  `json:"worst_ms"`
			IllegalH                  []string `json:"illegal_histories"`
			IllegalI                  []int    `json:"illegal_indexes"`
		}
		b, _ := os.ReadFile(vp)
		json.Unmarshal(b, &v)
		res.Obs("porcupine_ok", int64(v.Ok))
		res.Obs("porcupine_illegal", int64(v.Illegal))
		res.Obs("porcupine_unknown", int64(v.Unknown))
		res.Obs("max:porcupine_worst_ms", int64(v.WorstMs))
		for i, hs := range v.IllegalH {
			res.Violate("C13 history not linearizable (porcupine)", "porcupine: no linearization of this history is a FIFO queue: "+hs, map[string]any{"history_json": hs, "h": v.IllegalI[i]})
		}
		if v.Unknown > 0 {
			res.Inconc("porcupine timed out on %d histories", v.Unknown)
		}
		if v.Ok+v.Illegal+v.Unknown != n {
			res.Inconc("porcupine judged %d of %d histories", v.Ok+v.Illegal+v.Unknown, n)
		}
	}
	res.Eval(int64(n))
	res.Obs("short_histories", int64(n))
	res.Obs("short_history_ops", totalOps)
	res.Obs("short_histories_with_overlap", withOverlap)
	res.Obs("distinct_interleaving_signatures", int64(len(sigs)))
	for s := range sigs {
		res.Distinct(fmt.Sprintf("sig:%016x", s))
	}
	hitPoints(res, pts)
}

func pickPoint(r *vlib.Rand, pts []int) int {
	if len(pts) == 0 {
		return 0
	}
	return pts[r.Intn(len(pts))]
}

func hitPoints(res *vlib.Result, pts []int) {
	var hits []uint64
	reached := 0
	for _, i := range pts {
		h := vsys.Hits[i].Load()
		hits = append(hits, h)
		if h > 0 {
			reached++
		}
	}
	res.Extra["point_hits"] = hits
	res.Extra["points"] = len(pts)
	res.Obs("max:yield_points_total", int64(len(pts)))
	res.Obs("max:yield_points_reached", int64(reached))
}

func long(res *vlib.Result, pts []int) {
	nh := 2
	opsPer := 200000
	if res.Thorough() {
		nh = 40
	}
	if *vlib.FlagN > 0 {
		nh = *vlib.FlagN
	}
	vsys.SetDensity(64) // long runs: perturb less often
	for h := 0; h < nh; h++ {
		r := vlib.NewRand(res.Seed*104729 + uint64(h))
		q := queue.NewLockFreeQueue()
		prods := r.Range(1, 4)
		cons := r.Range(1, 3)
		clock.Store(0)
		hist := make([][]Op, prods+cons)
		per := opsPer / (prods + cons)
		var wg sync.WaitGroup
		var done atomic.Int32
		for c := 0; c < prods; c++ {
			wg.Add(1)
			go func(c int) {
				defer wg.Done()
				for j := 0; j < per; j++ {
					hist[c] = append(hist[c], enq(q, c, c*10_000_000+j))
				}
				done.Add(1)
			}(c)
		}
		for c := prods; c < prods+cons; c++ {
			wg.Add(1)
			go func(c int) {
				defer wg.Done()
				for j := 0; j < per || int(done.Load()) < prods; j++ {
					hist[c] = append(hist[c], deq(q, c))
					if j > 20*per {
						break
					}
				}
			}(c)
		}
		wg.Wait()
		var inq int32
		var all []Op
		for _, hc := range hist {
			for _, o := range hc {
				if o.Enq {
					inq++
				} else if o.V != -1 {
					inq--
				}
			}
		}
		if got := q.Length(); got != inq || q.IsEmpty() != (inq == 0) {
			res.Violate("C13 quiescent Length/IsEmpty disagree with content", fmt.Sprintf("no operation in flight: Length()=%d IsEmpty()=%v, history holds %d tasks", got, q.IsEmpty(), inq), map[string]any{"long": h})
		}
		for {
			o := deq(q, prods)
			hist[prods] = append(hist[prods], o)
			if o.V == -1 {
				break
			}
		}
		for _, hc := range hist {
			all = append(all, hc...)
		}
		if kind, detail := polyCheck(all, true); kind != "" {
			res.Violate("C13 history "+kind, detail, map[string]any{"long": h, "producers": prods, "consumers": cons})
		}
		// single-consumer order check: with one consumer the dequeue order is total
		res.Eval(1)
		res.Obs("long_history_ops", int64(len(all)))
		res.Distinct(fmt.Sprintf("long prods=%d cons=%d", prods, cons))
		if h == 0 {
			res.Sample(map[string]any{"long_history": fmt.Sprintf("%d producers x %d enqueues, %d consumers, %d operations, then drain", prods, per, cons, len(all))})
		}
	}
	hitPoints(res, pts)
}
