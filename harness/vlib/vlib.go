//go:build verif

// Package vlib is shared by the verification harnesses: seeded PRNG, result file, helpers.
package vlib

import (
	"encoding/json"
	"flag"
	"fmt"
	"os"
	"runtime"
	"runtime/pprof"
	"sort"
	"strconv"
	"strings"
	"sync"
	"time"
)

// Rand is a splitmix64 PRNG (deterministic, seedable, cheap, not thread-safe).
type Rand struct{ s uint64 }

func NewRand(seed uint64) *Rand { return &Rand{s: seed*0x9e3779b97f4a7c15 + 0x1234567} }

func (r *Rand) U64() uint64 {
	r.s += 0x9e3779b97f4a7c15
	x := r.s
	x = (x ^ (x >> 30)) * 0xbf58476d1ce4e5b9
	x = (x ^ (x >> 27)) * 0x94d049bb133111eb
	return x ^ (x >> 31)
}

// Intn returns a value in [0,n).
func (r *Rand) Intn(n int) int {
	if n <= 0 {
		return 0
	}
	return int(r.U64() % uint64(n))
}

// Range returns a value in [lo,hi].
func (r *Rand) Range(lo, hi int) int {
	if hi <= lo {
		return lo
	}
	return lo + r.Intn(hi-lo+1)
}

func (r *Rand) Bool() bool { return r.U64()&1 == 1 }

// Chance is true with probability num/den.
func (r *Rand) Chance(num, den int) bool { return r.Intn(den) < num }

// Pick returns one of the ints.
func (r *Rand) Pick(v ...int) int { return v[r.Intn(len(v))] }

// Fork derives an independent generator.
func (r *Rand) Fork() *Rand { return NewRand(r.U64()) }

// Fill fills p with pseudo-random bytes.
func (r *Rand) Fill(p []byte) {
	for i := 0; i < len(p); i += 8 {
		v := r.U64()
		for j := 0; j < 8 && i+j < len(p); j++ {
			p[i+j] = byte(v >> (8 * j))
		}
	}
}

// Mix is the splitmix64 finaliser.
func Mix(x uint64) uint64 {
	x += 0x9e3779b97f4a7c15
	x = (x ^ (x >> 30)) * 0xbf58476d1ce4e5b9
	x = (x ^ (x >> 27)) * 0x94d049bb133111eb
	return x ^ (x >> 31)
}

// StreamByte is the keyed stream function used by the stream oracles: byte at offset i of
// the stream with the given key.
func StreamByte(key uint64, i int64) byte {
	return byte(Mix(key^uint64(i>>3)*0x9e3779b97f4a7c15) >> (8 * (uint64(i) & 7)))
}

// StreamFill fills p with stream bytes [off, off+len(p)).
func StreamFill(key uint64, off int64, p []byte) {
	i := 0
	for i < len(p) {
		o := off + int64(i)
		w := Mix(key ^ uint64(o>>3)*0x9e3779b97f4a7c15)
		for j := uint64(o) & 7; j < 8 && i < len(p); j++ {
			p[i] = byte(w >> (8 * j))
			i++
		}
	}
}

// StreamCheck compares p with the stream at off; returns the index of the first mismatch or -1.
func StreamCheck(key uint64, off int64, p []byte) int {
	i := 0
	for i < len(p) {
		o := off + int64(i)
		w := Mix(key ^ uint64(o>>3)*0x9e3779b97f4a7c15)
		for j := uint64(o) & 7; j < 8 && i < len(p); j++ {
			if p[i] != byte(w>>(8*j)) {
				return i
			}
			i++
		}
	}
	return -1
}

// ---------------------------------------------------------------------------

// Violation is one refuting observation.
type Violation struct {
	Sig    string `json:"sig"`    // stable signature: identifies the failing input class / call site / history class
	Detail string `json:"detail"` // human-readable witness
	Replay any    `json:"replay,omitempty"`
}

// Result is what a harness run reports to vcheck.
type Result struct {
	mu           sync.Mutex
	Harness      string           `json:"harness"`
	Args         []string         `json:"args"`
	Seed         uint64           `json:"seed"`
	Tier         string           `json:"tier"`
	Evaluations  int64            `json:"evaluations"`
	DistinctKeys map[string]int64 `json:"distinct_keys"`
	Samples      []any            `json:"samples"`
	Violations   []Violation      `json:"violations"`
	Inconclusive []string         `json:"inconclusive"`
	Observed     map[string]int64 `json:"observed"`
	Notes        []string         `json:"notes"`
	Extra        map[string]any   `json:"extra,omitempty"`
	WallS        float64          `json:"wall_s"`
	Complete     bool             `json:"complete"`
	vioCount     map[string]int
	t0           time.Time
	out          string
}

// Flags common to all harnesses.
var (
	FlagSeed = flag.Uint64("seed", 1, "VERIF_SEED")
	FlagTier = flag.String("tier", "quick", "quick|thorough")
	FlagOut  = flag.String("out", "", "result file")
	FlagMode = flag.String("mode", "", "harness-specific mode / sub-scenario")
	FlagN    = flag.Int("n", 0, "harness-specific size override (0 = tier default)")
	FlagSkip = flag.String("skip", "", "comma-separated finding triggers to exclude from generation")
	FlagRep  = flag.String("replay", "", "replay file")
)

// Start parses flags and creates the result.
func Start(name string) *Result {
	flag.Parse()
	if pf := os.Getenv("VERIF_CPUPROFILE"); pf != "" { // development aid
		if f, err := os.Create(pf); err == nil {
			_ = pprof.StartCPUProfile(f)
			cpuProfile = f
		}
	}
	r := &Result{Harness: name, Args: os.Args[1:], Seed: *FlagSeed, Tier: *FlagTier,
		DistinctKeys: map[string]int64{}, Observed: map[string]int64{}, vioCount: map[string]int{},
		Extra: map[string]any{}, t0: time.Now(), out: *FlagOut}
	if v, err := strconv.Atoi(os.Getenv("VERIF_SOFT_DEADLINE_S")); err == nil && v > 0 {
		softDeadline = r.t0.Add(time.Duration(v) * time.Second)
	}
	return r
}

var cpuProfile *os.File

var (
	softDeadline time.Time
	timeUpNoted  sync.Once
)

// TimeUp reports whether the job's time budget (VERIF_SOFT_DEADLINE_S, set by vcheck to a fraction of the hard limit) is
// used up. Harnesses ask at case boundaries and stop generating further cases; what has been explored is judged as usual.
func (r *Result) TimeUp() bool {
	if softDeadline.IsZero() || time.Now().Before(softDeadline) {
		return false
	}
	timeUpNoted.Do(func() {
		r.Note("time budget of this job used up after %.0fs: no further cases generated (machine loaded?)", time.Since(r.t0).Seconds())
	})
	return true
}

func (r *Result) Thorough() bool { return r.Tier == "thorough" }

// Skip reports whether trigger t was excluded on the command line.
func Skip(t string) bool {
	for _, s := range strings.Split(*FlagSkip, ",") {
		if s == t && s != "" {
			return true
		}
	}
	return false
}

// Eval counts executed cases.
func (r *Result) Eval(n int64) {
	r.mu.Lock()
	r.Evaluations += n
	r.mu.Unlock()
}

// Distinct records a non-trivial case signature.
func (r *Result) Distinct(key string) {
	r.mu.Lock()
	r.DistinctKeys[key]++
	r.mu.Unlock()
}

// Obs adds n to an observation counter.
func (r *Result) Obs(key string, n int64) {
	r.mu.Lock()
	r.Observed[key] += n
	r.mu.Unlock()
}

// ObsMax keeps the maximum.
func (r *Result) ObsMax(key string, n int64) {
	r.mu.Lock()
	if n > r.Observed[key] {
		r.Observed[key] = n
	}
	r.mu.Unlock()
}

// Sample keeps up to 6 samples.
func (r *Result) Sample(s any) {
	r.mu.Lock()
	if len(r.Samples) < 6 {
		r.Samples = append(r.Samples, s)
	}
	r.mu.Unlock()
}

// Note appends a free-text note.
func (r *Result) Note(format string, a ...any) {
	r.mu.Lock()
	if len(r.Notes) < 50 {
		r.Notes = append(r.Notes, fmt.Sprintf(format, a...))
	}
	r.mu.Unlock()
}

// Violate records a violation (at most 3 witnesses per signature are kept).
func (r *Result) Violate(sig, detail string, replay any) {
	r.mu.Lock()
	defer r.mu.Unlock()
	r.vioCount[sig]++
	r.Observed["violations:"+sig]++
	if r.vioCount[sig] > 3 || len(r.Violations) >= 200 {
		return
	}
	r.Violations = append(r.Violations, Violation{Sig: sig, Detail: detail, Replay: replay})
}

// NViolations returns the number of recorded violation witnesses.
func (r *Result) NViolations() int {
	r.mu.Lock()
	defer r.mu.Unlock()
	return len(r.Violations)
}

// Inconc records an inconclusive case.
func (r *Result) Inconc(format string, a ...any) {
	r.mu.Lock()
	if len(r.Inconclusive) < 100 {
		r.Inconclusive = append(r.Inconclusive, fmt.Sprintf(format, a...))
	}
	r.Observed["inconclusive"]++
	r.mu.Unlock()
}

// Checkpoint writes the result file (Complete=false) so that a crash leaves a trace.
func (r *Result) Checkpoint() { r.write(false) }

// Finish writes the final result and exits 0. (Violations are decided by vcheck, not by exit status.)
func (r *Result) Finish() {
	r.write(true)
	if cpuProfile != nil {
		pprof.StopCPUProfile()
		_ = cpuProfile.Close()
	}
	os.Exit(0)
}

func (r *Result) write(complete bool) {
	r.mu.Lock()
	defer r.mu.Unlock()
	r.Complete = complete
	r.WallS = time.Since(r.t0).Seconds()
	if r.out == "" {
		b, _ := json.MarshalIndent(r, "", " ")
		fmt.Println(string(b))
		return
	}
	b, err := json.Marshal(r)
	if err != nil {
		fmt.Fprintln(os.Stderr, "vlib: marshal:", err)
		os.Exit(3)
	}
	tmp := r.out + ".tmp"
	if err := os.WriteFile(tmp, b, 0o644); err != nil {
		fmt.Fprintln(os.Stderr, "vlib: write:", err)
		os.Exit(3)
	}
	os.Rename(tmp, r.out)
}

// Catch runs f and converts a panic into (true, message, stack top).
func Catch(f func()) (panicked bool, msg string) {
	defer func() {
		if e := recover(); e != nil {
			panicked = true
			msg = fmt.Sprint(e)
		}
	}()
	f()
	return
}

// PanicClass shortens a panic message into a stable class.
func PanicClass(msg string) string {
	switch {
	case strings.Contains(msg, "index out of range"):
		return "index-out-of-range"
	case strings.Contains(msg, "slice bounds out of range"):
		return "slice-bounds"
	case strings.Contains(msg, "nil pointer"):
		return "nil-deref"
	case strings.Contains(msg, "divide by zero"):
		return "divide-by-zero"
	case strings.Contains(msg, "makeslice"):
		return "makeslice"
	}
	if len(msg) > 40 {
		msg = msg[:40]
	}
	return strings.ReplaceAll(msg, " ", "-")
}

// GoroutineDump returns the stacks of all goroutines.
func GoroutineDump() string {
	buf := make([]byte, 1<<20)
	n := runtime.Stack(buf, true)
	return string(buf[:n])
}

// NormalizeDump strips addresses and wait durations so two dumps can be compared.
func NormalizeDump(d string) string {
	var out []string
	for _, blk := range strings.Split(d, "\n\n") {
		lines := strings.Split(blk, "\n")
		var keep []string
		for i, l := range lines {
			if i == 0 {
				// goroutine 12 [select, 2 minutes]:
				if j := strings.Index(l, "["); j >= 0 {
					st := l[j:]
					if k := strings.Index(st, ","); k >= 0 {
						st = st[:k] + "]:"
					}
					l = l[:j] + st
				}
				keep = append(keep, l)
				continue
			}
			if strings.HasPrefix(l, "\t") {
				if j := strings.LastIndex(l, " +0x"); j >= 0 {
					l = l[:j]
				}
				keep = append(keep, l)
			} else {
				if j := strings.Index(l, "("); j >= 0 {
					l = l[:j]
				}
				keep = append(keep, l)
			}
		}
		out = append(out, strings.Join(keep, "\n"))
	}
	sort.Strings(out)
	return strings.Join(out, "\n\n")
}

// GoID returns the current goroutine id.
func GoID() int64 {
	var buf [64]byte
	n := runtime.Stack(buf[:], false)
	// "goroutine 123 ["
	var id int64
	for _, c := range buf[10:n] {
		if c < '0' || c > '9' {
			break
		}
		id = id*10 + int64(c-'0')
	}
	return id
}
