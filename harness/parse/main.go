//go:build verif

// Harness parse decides C16: address parsing (grammar-generated well-formed addresses with a
// known expected result; mutated ill-formed ones) and option normalisation.
package main

import (
	"errors"
	"fmt"
	"net/url"
	"path"
	"regexp"
	"runtime"
	"strings"

	gnet "github.com/panjf2000/gnet/v2"
	errorx "github.com/panjf2000/gnet/v2/pkg/errors"
	"github.com/panjf2000/gnet/v2/zzverif/vlib"
)

var schemes = []string{"tcp", "tcp4", "tcp6", "udp", "udp4", "udp6", "unix"}

func isScheme(s string) bool {
	for _, x := range schemes {
		if x == s {
			return true
		}
	}
	return false
}

func pickStr(r *vlib.Rand, alphabet string, lo, hi int) string {
	n := r.Range(lo, hi)
	b := make([]byte, n)
	for i := range b {
		b[i] = alphabet[r.Intn(len(alphabet))]
	}
	return string(b)
}

const alnum = "abcdefghijklmnopqrstuvwxyz0123456789"

// genWellFormed returns (address, scheme, expected endpoint, class).
func genWellFormed(r *vlib.Rand) (addr, scheme, want, class string) {
	scheme = schemes[r.Intn(len(schemes))]
	if scheme == "unix" {
		var segs []string
		first := r.Intn(5)
		switch first {
		case 0:
			segs = append(segs, "") // absolute
			class = "unix-abs"
		case 1:
			segs = append(segs, ".")
			class = "unix-dot"
		case 2:
			segs = append(segs, "..")
			class = "unix-dotdot"
		case 3:
			segs = append(segs, pickStr(r, alnum+"._-", 1, 8))
			class = "unix-rel"
		case 4:
			segs = append(segs, "", "") // "//x": empty host, path "//x"
			class = "unix-dslash"
		}
		n := r.Range(1, 5)
		for i := 0; i < n; i++ {
			switch r.Intn(9) {
			case 0:
				segs = append(segs, ".")
			case 1:
				segs = append(segs, "..")
			case 2:
				segs = append(segs, "")
			case 3:
				segs = append(segs, pickStr(r, alnum, 1, 6)+"%"+pickStr(r, "0123456789abcdefgz", 0, 3))
				class += "+pct"
			case 4:
				segs = append(segs, pickStr(r, alnum+" ~+=,;!$&'()*", 1, 10))
			case 5:
				segs = append(segs, "déjà-"+pickStr(r, alnum, 0, 4))
				class += "+utf8"
			default:
				segs = append(segs, pickStr(r, alnum+"._-", 1, 12))
			}
		}
		rest := strings.Join(segs, "/")
		if rest == "" {
			rest = "/x"
		}
		return "unix://" + rest, "unix", path.Clean(rest), class
	}
	var host string
	switch r.Intn(7) {
	case 0:
		host = ""
		class = "empty-host"
	case 1:
		host = pickStr(r, alnum, 1, 10)
		if r.Bool() {
			host += "." + pickStr(r, alnum+"-", 1, 8) + ".example"
		}
		class = "name"
	case 2:
		host = fmt.Sprintf("%d.%d.%d.%d", r.Intn(256), r.Intn(256), r.Intn(256), r.Intn(256))
		class = "ipv4"
	case 3:
		host = "[" + []string{"::1", "::", "fe80::1", "2001:db8::8a2e:370:7334", "::ffff:10.0.0.1"}[r.Intn(5)] + "]"
		class = "ipv6"
	case 4:
		host = "[fe80::" + pickStr(r, "0123456789abcdef", 1, 4) + "%" + pickStr(r, alnum+"._-", 1, 8) + "]"
		class = "ipv6-zone"
	case 5:
		host = "[fe80::1%" + pickStr(r, alnum, 1, 4) + "%" + pickStr(r, alnum, 0, 4) + "]"
		class = "ipv6-zone-pct"
	case 6:
		host = "[fe80::2%25" + pickStr(r, alnum, 1, 5) + "]"
		class = "ipv6-zone-pct25"
	}
	switch r.Intn(5) {
	case 0:
		if host != "" {
			class += "+noport"
			break
		}
		fallthrough
	default:
		host += fmt.Sprintf(":%d", r.Pick(0, 1, 80, 9000, 65535, r.Intn(65536)))
	case 1:
		host += ":" // empty port
		class += "+emptyport"
	}
	if host == "" {
		host = ":0"
	}
	return scheme + "://" + host, scheme, host, scheme[:3] + "-" + class
}

var schemeRe = regexp.MustCompile(`^([A-Za-z][A-Za-z0-9+.\-]*)://(.*)$`)

func mutate(r *vlib.Rand, s string) (string, string) {
	b := []byte(s)
	k := r.Intn(11)
	switch k {
	case 0: // flip a byte
		if len(b) > 0 {
			b[r.Intn(len(b))] ^= byte(1 << uint(r.Intn(8)))
		}
		return string(b), "byteflip"
	case 1: // truncate
		return string(b[:r.Intn(len(b)+1)]), "truncate"
	case 2: // delete the scheme
		if i := strings.Index(s, "://"); i >= 0 {
			return s[i:], "no-scheme"
		}
	case 3:
		if i := strings.Index(s, "://"); i >= 0 {
			return s[i+3:], "no-scheme-sep"
		}
	case 4: // insert a control / non-ASCII / delimiter byte
		ins := []byte{0, 1, '\n', '\t', 0x7f, 0x80, 0xff, ' ', '%', '?', '#', '@', '/', ':', '[', ']', '\\', '<', '"'}[r.Intn(19)]
		i := r.Intn(len(b) + 1)
		b = append(b[:i], append([]byte{ins}, b[i:]...)...)
		return string(b), "insert"
	case 5: // unknown scheme
		if i := strings.Index(s, "://"); i >= 0 {
			return pickStr(r, "abcxyz", 1, 5) + s[i:], "unknown-scheme"
		}
	case 6: // upper-case scheme
		if i := strings.Index(s, "://"); i >= 0 {
			return strings.ToUpper(s[:i]) + s[i:], "upper-scheme"
		}
	case 7: // empty endpoint
		if i := strings.Index(s, "://"); i >= 0 {
			return s[:i+3], "empty-endpoint"
		}
	case 8: // duplicate a chunk
		if len(b) > 2 {
			i := r.Intn(len(b) - 1)
			j := i + 1 + r.Intn(len(b)-i-1)
			b = append(b[:j], append(append([]byte{}, b[i:j]...), b[j:]...)...)
		}
		return string(b), "dup-chunk"
	case 9: // random bytes
		n := r.Intn(30)
		b = make([]byte, n)
		r.Fill(b)
		return string(b), "random-bytes"
	case 10: // tcp with a path
		return s + "/" + pickStr(r, alnum, 0, 4), "trailing-path"
	}
	return s + "%", "trailing-pct"
}

func main() {
	res := vlib.Start("parse")
	r := vlib.NewRand(res.Seed)
	n := 600000
	if res.Thorough() {
		n = 20000000
	}
	if *vlib.FlagN > 0 {
		n = *vlib.FlagN
	}
	var evals int64
	accepted := int64(0)
	for i := 0; i < n && (i%4096 != 0 || !res.TimeUp()); i++ {
		addr, scheme, want, class := genWellFormed(r)
		var gs, ge string
		var err error
		evals++
		if p, msg := vlib.Catch(func() { gs, ge, err = gnet.VerifParseProtoAddr(addr) }); p {
			res.Violate("C16 parseProtoAddr panic class="+class, fmt.Sprintf("parseProtoAddr(%q) panicked: %s", addr, msg), map[string]any{"addr": addr})
		} else if err != nil {
			res.Violate("C16 well-formed address rejected class="+class, fmt.Sprintf("parseProtoAddr(%q) = error %v, expected (%q, %q)", addr, err, scheme, want), map[string]any{"addr": addr})
		} else if gs != scheme || ge != want {
			res.Violate("C16 well-formed address parsed wrongly class="+class, fmt.Sprintf("parseProtoAddr(%q) = (%q, %q), expected (%q, %q)", addr, gs, ge, scheme, want), map[string]any{"addr": addr})
		}
		res.Distinct("wf|" + class)
		if i < 3 {
			res.Sample(map[string]any{"addr": addr, "scheme": scheme, "endpoint": want})
		}
		// an ill-formed relative
		bad, mclass := mutate(r, addr)
		if r.Chance(1, 4) {
			bad, _ = mutate(r, bad)
			mclass += "+2"
		}
		evals++
		if p, msg := vlib.Catch(func() { gs, ge, err = gnet.VerifParseProtoAddr(bad) }); p {
			res.Violate("C16 parseProtoAddr panic class=mut-"+mclass, fmt.Sprintf("parseProtoAddr(%q) panicked: %s", bad, msg), map[string]any{"addr": bad})
			continue
		}
		res.Distinct("mut|" + mclass + "|" + map[bool]string{true: "rejected", false: "accepted"}[err != nil])
		if i < 2 {
			res.Sample(map[string]any{"addr": bad, "mutation": mclass, "err": fmt.Sprint(err), "scheme": gs, "endpoint": ge})
		}
		if err == nil {
			accepted++
			if !isScheme(gs) || ge == "" {
				res.Violate("C16 accepted address with unsupported scheme or empty endpoint", fmt.Sprintf("parseProtoAddr(%q) = (%q, %q, nil)", bad, gs, ge), map[string]any{"addr": bad})
				continue
			}
			if m := schemeRe.FindStringSubmatch(bad); m != nil && !strings.ContainsAny(bad, "?#@") {
				wantE := m[2]
				if gs == "unix" {
					wantE = path.Clean(m[2])
				}
				if strings.ToLower(m[1]) != gs || ge != wantE {
					res.Violate("C16 accepted address not returned as written", fmt.Sprintf("parseProtoAddr(%q) = (%q, %q), text after :// is %q", bad, gs, ge, m[2]), map[string]any{"addr": bad})
				}
			}
			continue
		}
		// error classes the statement names
		esc := strings.ReplaceAll(bad, "%", "%25")
		if u, perr := url.Parse(esc); perr == nil {
			switch {
			case u.Scheme == "":
				if !errors.Is(err, errorx.ErrInvalidNetworkAddress) {
					res.Violate("C16 missing scheme not reported as ErrInvalidNetworkAddress", fmt.Sprintf("parseProtoAddr(%q) = %v", bad, err), map[string]any{"addr": bad})
				}
			case !isScheme(u.Scheme):
				if !errors.Is(err, errorx.ErrUnsupportedProtocol) {
					res.Violate("C16 unknown scheme not reported as ErrUnsupportedProtocol", fmt.Sprintf("parseProtoAddr(%q) = %v", bad, err), map[string]any{"addr": bad})
				}
			default:
				if !errors.Is(err, errorx.ErrInvalidNetworkAddress) {
					res.Violate("C16 empty endpoint not reported as ErrInvalidNetworkAddress", fmt.Sprintf("parseProtoAddr(%q) = %v", bad, err), map[string]any{"addr": bad})
				}
			}
		}
	}
	res.Obs("mutants_accepted", accepted)

	// ---- option normalisation
	isPow := func(v int) bool { return v > 0 && v&(v-1) == 0 }
	var caps []int
	for _, v := range []int{-1 << 40, -5, -1, 0, 1, 2, 3, 1000, 1023, 1024, 1025, 4095, 4096, 4097, 65535, 65536, 65537} {
		caps = append(caps, v)
	}
	for k := 11; k <= 62; k++ {
		caps = append(caps, 1<<k-1, 1<<k, 1<<k+1)
	}
	for i := 0; i < 200; i++ {
		caps = append(caps, int(r.U64()>>uint(2+r.Intn(60))))
	}
	checkCap := func(what string, req, got int) {
		evals++
		switch {
		case req <= 0:
			if got != 64*1024 {
				res.Violate("C16 "+what+" default", fmt.Sprintf("%s requested %d -> %d, want 65536", what, req, got), map[string]any{"opt": what, "req": req})
			}
		default:
			if !isPow(got) || got < req || got < 1024 {
				res.Violate("C16 "+what+" normalisation", fmt.Sprintf("%s requested %d -> %d (want a power of two >= request and >= 1024)", what, req, got), map[string]any{"opt": what, "req": req})
			}
		}
	}
	for _, c := range caps {
		if c > 1<<62 {
			continue
		}
		c := c
		p, msg := vlib.Catch(func() {
			cli, err := gnet.NewClient(&gnet.BuiltinEventEngine{}, gnet.WithReadBufferCap(c), gnet.WithWriteBufferCap(c), gnet.WithEdgeTriggeredIOChunk(c))
			if err != nil {
				res.Violate("C16 NewClient error", fmt.Sprintf("cap %d: %v", c, err), nil)
				return
			}
			o := gnet.VerifClientOptions(cli)
			checkCap("ReadBufferCap", c, o.ReadBufferCap)
			checkCap("WriteBufferCap", c, o.WriteBufferCap)
			// the three requests are independent of each other
			for k := 0; k < 3; k++ {
				rc, wc, cc := caps[r.Intn(len(caps))], caps[r.Intn(len(caps))], caps[r.Intn(len(caps))]
				if rc > 1<<62 || wc > 1<<62 || cc > 1<<62 {
					continue
				}
				cli, err := gnet.NewClient(&gnet.BuiltinEventEngine{}, gnet.WithReadBufferCap(rc), gnet.WithWriteBufferCap(wc), gnet.WithEdgeTriggeredIOChunk(cc))
				if err != nil {
					res.Violate("C16 NewClient error", fmt.Sprintf("caps %d/%d/%d: %v", rc, wc, cc, err), nil)
					return
				}
				o := gnet.VerifClientOptions(cli)
				checkCap("ReadBufferCap(independent)", rc, o.ReadBufferCap)
				checkCap("WriteBufferCap(independent)", wc, o.WriteBufferCap)
				if cc > 0 && (!o.EdgeTriggeredIO || !isPow(o.EdgeTriggeredIOChunk) || o.EdgeTriggeredIOChunk < cc) {
					res.Violate("C16 EdgeTriggeredIOChunk normalisation", fmt.Sprintf("chunk requested %d (read %d, write %d) -> ET=%v chunk=%d", cc, rc, wc, o.EdgeTriggeredIO, o.EdgeTriggeredIOChunk), map[string]any{"opt": "chunk", "req": cc})
				}
			}
			evals++
			if c > 0 {
				if !o.EdgeTriggeredIO || !isPow(o.EdgeTriggeredIOChunk) || o.EdgeTriggeredIOChunk < c {
					res.Violate("C16 EdgeTriggeredIOChunk normalisation", fmt.Sprintf("chunk requested %d -> ET=%v chunk=%d", c, o.EdgeTriggeredIO, o.EdgeTriggeredIOChunk), map[string]any{"opt": "chunk", "req": c})
				}
			} else if o.EdgeTriggeredIO {
				res.Violate("C16 EdgeTriggeredIOChunk normalisation", fmt.Sprintf("chunk requested %d switched edge-triggered mode on", c), map[string]any{"opt": "chunk", "req": c})
			}
		})
		if p {
			res.Violate("C16 option normalisation panic", fmt.Sprintf("capacity %d: %s", c, msg), map[string]any{"req": c})
		}
	}
	res.Distinct("opts|client-caps")
	{ // ET without chunk: 1 MiB
		cli, _ := gnet.NewClient(&gnet.BuiltinEventEngine{}, gnet.WithEdgeTriggeredIO(true))
		if o := gnet.VerifClientOptions(cli); o.EdgeTriggeredIOChunk != 1<<20 || !o.EdgeTriggeredIO {
			res.Violate("C16 EdgeTriggeredIOChunk default", fmt.Sprintf("ET without chunk -> chunk=%d", o.EdgeTriggeredIOChunk), nil)
		}
		evals++
	}
	// server side through createListeners on port 0
	for _, c := range []int{-1, 0, 1, 1023, 1025, 5000, 65537, 1 << 20, 1<<20 + 1} {
		c := c
		p, msg := vlib.Catch(func() {
			o, err := gnet.VerifCreateListeners([]string{"tcp://127.0.0.1:0"}, gnet.WithReadBufferCap(c), gnet.WithWriteBufferCap(c), gnet.WithEdgeTriggeredIOChunk(c))
			if err != nil {
				res.Inconc("createListeners on port 0 failed: %v", err)
				return
			}
			checkCap("ReadBufferCap(server)", c, o.ReadBufferCap)
			checkCap("WriteBufferCap(server)", c, o.WriteBufferCap)
			for _, pair := range [][3]int{{512, 5000, 0}, {5000, 512, 3000}, {0, 70000, 100}, {1 << 20, 1, 1 << 16}, {3, 1<<20 + 1, 5}} {
				o, err := gnet.VerifCreateListeners([]string{"tcp://127.0.0.1:0"}, gnet.WithReadBufferCap(pair[0]), gnet.WithWriteBufferCap(pair[1]), gnet.WithEdgeTriggeredIOChunk(pair[2]))
				if err != nil {
					res.Inconc("createListeners on port 0 failed: %v", err)
					return
				}
				checkCap("ReadBufferCap(server,independent)", pair[0], o.ReadBufferCap)
				checkCap("WriteBufferCap(server,independent)", pair[1], o.WriteBufferCap)
				if pair[2] > 0 && (!o.EdgeTriggeredIO || !isPow(o.EdgeTriggeredIOChunk) || o.EdgeTriggeredIOChunk < pair[2]) {
					res.Violate("C16 EdgeTriggeredIOChunk normalisation", fmt.Sprintf("server chunk requested %d -> ET=%v chunk=%d", pair[2], o.EdgeTriggeredIO, o.EdgeTriggeredIOChunk), map[string]any{"opt": "chunk", "req": pair[2]})
				}
			}
			if c > 0 && (!o.EdgeTriggeredIO || !isPow(o.EdgeTriggeredIOChunk) || o.EdgeTriggeredIOChunk < c) {
				res.Violate("C16 EdgeTriggeredIOChunk normalisation", fmt.Sprintf("server chunk requested %d -> ET=%v chunk=%d", c, o.EdgeTriggeredIO, o.EdgeTriggeredIOChunk), map[string]any{"opt": "chunk", "req": c})
			}
		})
		if p {
			res.Violate("C16 option normalisation panic", fmt.Sprintf("server capacity %d: %s", c, msg), map[string]any{"req": c})
		}
	}
	res.Distinct("opts|server-caps")
	// event-loop count
	ncpu := runtime.NumCPU()
	for _, mc := range []bool{false, true} {
		for _, nl := range []int{-1 << 31, -7, -1, 0, 1, 2, 3, 15, 16, 17, 255, 256, 257, 1000, 10000, 1 << 30} {
			o := &gnet.Options{Multicore: mc, NumEventLoop: nl}
			got := gnet.VerifDetermineEventLoops(o)
			want := 1
			if mc {
				want = ncpu
			}
			if nl > 0 {
				want = nl
			}
			if want > 256 {
				want = 256
			}
			evals++
			if got != want || got < 1 || got > 256 {
				res.Violate("C16 event-loop count clamp", fmt.Sprintf("Multicore=%v NumEventLoop=%d -> %d, want %d", mc, nl, got, want), map[string]any{"multicore": mc, "n": nl})
			}
		}
	}
	res.Distinct("opts|loop-count")
	res.Eval(evals)
	res.Finish()
}
