//go:build verif

package vsys

import (
	"fmt"
	"runtime"
	"sort"
	"strings"
	"sync"
	"sync/atomic"
	"unsafe"

	"golang.org/x/sys/unix"
)

// ---------------------------------------------------------------------------
// Ledger
// ---------------------------------------------------------------------------

const (
	stUnknown  = 0
	stOwned    = 1
	stReleased = 2
)

// FDInfo describes a descriptor number as the ledger sees it.
type FDInfo struct {
	FD         int
	State      int
	Class      string // accepted, socket, dup, epoll, eventfd
	Site       string // framework function that created it
	Registered bool   // was ever added to an epoll set
	Events     uint32 // events of the last successful epoll_ctl ADD/MOD
	Rd, Wr     int64  // bytes returned by reads / accepted by writes since creation
	Reads      int64  // successful read calls
	Gen        int
	CloseSite  string
	CloseRound int64 // epoll batch of the closing goroutine at the time of the close
}

type shard struct {
	mu sync.Mutex
	m  map[int]*FDInfo
}

const nshard = 64

var (
	shards  [nshard]shard
	foreign sync.Map // fd -> tag (harness/user owned)

	seq atomic.Int64

	alarmMu sync.Mutex
	alarms  []Alarm

	logMu   sync.Mutex
	logRing [8192]string
	logN    int

	// Tracing switches the textual event log on.
	Tracing atomic.Bool

	// EfdWrites counts 8-byte writes to eventfds (wake-ups posted).
	EfdWrites atomic.Int64
	// Calls counts shim calls per class.
	Calls [nCall]atomic.Int64
)

// Alarm is a one-sided ledger alarm.
type Alarm struct {
	Seq    int64
	Kind   string // use-after-close, double-close, foreign-touch, ebadf
	Op     string
	FD     int
	Site   string
	Detail string
}

func init() {
	for i := range shards {
		shards[i].m = map[int]*FDInfo{}
	}
}

func sh(fd int) *shard {
	if fd < 0 {
		fd = -fd
	}
	return &shards[fd%nshard]
}

// Seq returns a fresh global sequence number (shared with harness event logs).
func Seq() int64 { return seq.Add(1) }

func site() string { return siteN(1) }

// siteN returns the innermost n framework frames (callee<-caller) above the shim.
func siteN(n int) string {
	var pcs [24]uintptr
	k := runtime.Callers(2, pcs[:])
	fr := runtime.CallersFrames(pcs[:k])
	var out []string
	for {
		f, more := fr.Next()
		fn := f.Function
		if fn != "" && !strings.Contains(fn, "/pkg/vsys.") && !strings.Contains(fn, "/pkg/socket.") &&
			!strings.Contains(fn, "/pkg/io.") {
			if i := strings.LastIndex(fn, "/"); i >= 0 {
				fn = fn[i+1:]
			}
			out = append(out, fn)
			if len(out) >= n {
				break
			}
		}
		if !more {
			break
		}
	}
	if len(out) == 0 {
		return "?"
	}
	return strings.Join(out, "<-")
}

func trace(format string, a ...any) {
	if !Tracing.Load() {
		return
	}
	s := fmt.Sprintf(format, a...)
	logMu.Lock()
	logRing[logN%len(logRing)] = s
	logN++
	logMu.Unlock()
}

// LogTail returns up to n most recent trace lines.
func LogTail(n int) []string {
	logMu.Lock()
	defer logMu.Unlock()
	if n > logN {
		n = logN
	}
	if n > len(logRing) {
		n = len(logRing)
	}
	out := make([]string, 0, n)
	for i := logN - n; i < logN; i++ {
		out = append(out, logRing[i%len(logRing)])
	}
	return out
}

func alarm(kind, op string, fd int, detail string) {
	a := Alarm{Seq: seq.Add(1), Kind: kind, Op: op, FD: fd, Site: siteN(2), Detail: detail}
	alarmMu.Lock()
	if len(alarms) < 1000 {
		alarms = append(alarms, a)
	}
	alarmMu.Unlock()
	trace("%d ALARM %s op=%s fd=%d site=%s %s", a.Seq, kind, op, fd, a.Site, detail)
}

// Alarms returns the alarms raised so far.
func Alarms() []Alarm {
	alarmMu.Lock()
	defer alarmMu.Unlock()
	return append([]Alarm(nil), alarms...)
}

// ResetAlarms forgets the alarms raised so far.
func ResetAlarms() {
	alarmMu.Lock()
	alarms = nil
	alarmMu.Unlock()
}

// ForeignAdd declares that number fd currently belongs to the harness / the user.
func ForeignAdd(fd int, tag string) { foreign.Store(fd, tag) }

// ForeignDel withdraws that declaration (call it BEFORE closing the descriptor).
func ForeignDel(fd int) { foreign.Delete(fd) }

// Disown tells the ledger that the framework handed descriptor fd to the user
// (Engine.Dup, DupListener, Conn.Dup): it is no longer the framework's.
func Disown(fd int, tag string) {
	s := sh(fd)
	s.mu.Lock()
	delete(s.m, fd)
	s.mu.Unlock()
	foreign.Store(fd, tag)
}

// Info returns the ledger record of fd.
func Info(fd int) (FDInfo, bool) {
	s := sh(fd)
	s.mu.Lock()
	defer s.mu.Unlock()
	if fi, ok := s.m[fd]; ok {
		return *fi, true
	}
	return FDInfo{}, false
}

// Owned lists every descriptor the ledger believes the framework currently owns.
func Owned() []FDInfo {
	var out []FDInfo
	for i := range shards {
		s := &shards[i]
		s.mu.Lock()
		for _, fi := range s.m {
			if fi.State == stOwned {
				out = append(out, *fi)
			}
		}
		s.mu.Unlock()
	}
	sort.Slice(out, func(i, j int) bool { return out[i].FD < out[j].FD })
	return out
}

// ResetLedger forgets everything (between engine lives, after the harness has
// accounted for leftovers).
func ResetLedger() {
	for i := range shards {
		s := &shards[i]
		s.mu.Lock()
		s.m = map[int]*FDInfo{}
		s.mu.Unlock()
	}
}

// created records a successful creation; called with the shard lock held.
func createdLocked(s *shard, fd int, class string) {
	old := s.m[fd]
	gen := 1
	if old != nil {
		gen = old.Gen + 1
		if old.State == stOwned {
			// the kernel handed out a number the ledger believes is still open:
			// it must have been closed through an unwrapped path; adopt silently.
			trace("%d note: fd=%d recreated while owned (class %s)", seq.Load(), fd, old.Class)
		}
	}
	s.m[fd] = &FDInfo{FD: fd, State: stOwned, Class: class, Site: site(), Gen: gen}
	if tag, ok := foreign.Load(fd); ok {
		// the harness forgot to withdraw a closed descriptor: harness bug, not an alarm
		trace("%d note: fd=%d created while foreign tag=%v", seq.Load(), fd, tag)
		foreign.Delete(fd)
	}
}

// use checks an operation on fd; returns the info pointer (under lock held by caller).
func useLocked(s *shard, op string, fd int) *FDInfo {
	fi := s.m[fd]
	// was the number closed while the same batch of events was being worked on, or in an earlier one?
	batch := ""
	if fi != nil && fi.State == stReleased && strings.HasPrefix(op, "epoll_ctl") && fi.CloseRound >= 0 {
		if rn := roundOfCaller(); rn != fi.CloseRound {
			batch = "(later-batch)"
		}
	}
	if tag, ok := foreign.Load(fd); ok {
		alarm("foreign-touch"+batch, op, fd, fmt.Sprint("tag=", tag))
		if fi == nil {
			fi = &FDInfo{FD: fd, State: stUnknown, Class: "adopted"}
		}
		return fi // reported once: not also as use-after-close
	}
	if fi == nil {
		fi = &FDInfo{FD: fd, State: stUnknown, Class: "adopted"}
		s.m[fd] = fi
		return fi
	}
	if fi.State == stReleased {
		kind := "use-after-close"
		if op == "close" {
			kind = "double-close"
		}
		alarm(kind+batch, op, fd, fmt.Sprintf("class=%s created=%s closed=%s", fi.Class, fi.Site, fi.CloseSite))
	}
	return fi
}

func noteErr(op string, fd int, err error) {
	if err == unix.EBADF && fd >= 0 { // a negative value is not a descriptor number (close(-1) on an error path)
		alarm("ebadf", op, fd, "system call returned EBADF")
	}
}

// ---------------------------------------------------------------------------
// Fault plan
// ---------------------------------------------------------------------------

// Call classes.
const (
	CRead = iota
	CWrite
	CWritev
	CAccept
	CEpollAdd
	CEpollMod
	CEpollDel
	CClose
	CEpollWait
	CRecvfrom
	CSendto
	CSend
	CSocket
	CDup
	CEfdWrite
	CEfdRead
	CEventfd
	CEpollCreate
	nCall
)

var callNames = [nCall]string{"read", "write", "writev", "accept4", "epoll_ctl_add", "epoll_ctl_mod", "epoll_ctl_del",
	"close", "epoll_wait", "recvfrom", "sendto", "send", "socket", "dup", "efd_write", "efd_read", "eventfd", "epoll_create1"}

// CallName names a call class.
func CallName(c int) string { return callNames[c] }

// Rule is one planned perturbation.
type Rule struct {
	Call   int    // call class
	FD     int    // -1: any descriptor
	Class  string // "" any, else ledger class of the descriptor (accepted, dup, ...)
	Index  int64  // fire at the Index-th matching call (1-based); 0: every matching call subject to Every
	Every  uint64 // with Index==0: fire when hash(seed,counter)%Every==0 (0/1 = always)
	Action int    // AErrno, AShort, AEagain, ADelay
	Errno  unix.Errno
	Max    int    // AShort: transfer at most Max bytes
	Ns     int64  // ADelay
	Once   bool   // disable after first firing
	Site   string // "": any; else the rule only matches calls whose innermost two framework frames contain this text
	After  *Rule  // non-nil: the rule only matches after that rule has fired, and only on the descriptor it fired on

	fired   atomic.Bool
	firedFD atomic.Int64

	count atomic.Int64
	dead  atomic.Bool
}

// Actions.
const (
	AErrno = iota
	AShort
	AEagain
	ADelay
)

// Fire records one firing of a rule.
type Fire struct {
	Seq  int64
	Rule int
	Call int
	FD   int
	Site string
}

var (
	planMu  sync.RWMutex
	plan    []*Rule
	planOn  atomic.Bool
	fireMu  sync.Mutex
	fired   []Fire
	nFired  atomic.Int64
	planSed atomic.Uint64
)

// PlanAdd installs a rule and returns its id.
func PlanAdd(r *Rule) int {
	planMu.Lock()
	defer planMu.Unlock()
	plan = append(plan, r)
	planOn.Store(true)
	return len(plan) - 1
}

// PlanClear removes all rules and firing records.
func PlanClear() {
	planMu.Lock()
	plan = nil
	planOn.Store(false)
	planMu.Unlock()
	fireMu.Lock()
	fired = nil
	fireMu.Unlock()
	nFired.Store(0)
}

// PlanSeed seeds probabilistic rules.
func PlanSeed(s uint64) { planSed.Store(s) }

// Fired returns the firings so far.
func Fired() []Fire {
	fireMu.Lock()
	defer fireMu.Unlock()
	return append([]Fire(nil), fired...)
}

// NFired is the number of firings so far.
func NFired() int64 { return nFired.Load() }

func classOf(fd int) string {
	s := sh(fd)
	s.mu.Lock()
	defer s.mu.Unlock()
	if fi := s.m[fd]; fi != nil {
		return fi.Class
	}
	return ""
}

// consult returns the rule to apply to this call, or nil.
func consult(call int, fd int) *Rule {
	Calls[call].Add(1)
	if !planOn.Load() {
		return nil
	}
	planMu.RLock()
	defer planMu.RUnlock()
	for id, r := range plan {
		if r.Call != call || r.dead.Load() {
			continue
		}
		if r.FD >= 0 && r.FD != fd {
			continue
		}
		if r.Class != "" && classOf(fd) != r.Class {
			continue
		}
		if r.After != nil && (!r.After.fired.Load() || int(r.After.firedFD.Load()) != fd) {
			continue
		}
		if r.Site != "" && !strings.Contains(siteN(2), r.Site) {
			continue
		}
		c := r.count.Add(1)
		if r.Index > 0 {
			if c != r.Index {
				continue
			}
		} else if r.Every > 1 {
			if mix(planSed.Load()^uint64(id)<<32^uint64(c))%r.Every != 0 {
				continue
			}
		}
		if r.Once {
			r.dead.Store(true)
		}
		r.firedFD.Store(int64(fd))
		r.fired.Store(true)
		f := Fire{Seq: seq.Add(1), Rule: id, Call: call, FD: fd, Site: site()}
		fireMu.Lock()
		if len(fired) < 100000 {
			fired = append(fired, f)
		}
		fireMu.Unlock()
		nFired.Add(1)
		trace("%d FIRE rule=%d %s fd=%d action=%d errno=%d site=%s", f.Seq, id, callNames[call], fd, r.Action, int(r.Errno), f.Site)
		return r
	}
	return nil
}

// ---------------------------------------------------------------------------
// epoll_wait state (stuck predicate)
// ---------------------------------------------------------------------------

// PollerState describes one epoll descriptor created by the framework.
type PollerState struct {
	Epfd     int
	InWait   bool
	Blocking bool
	EntrySeq int64
	Waits    int64
}

type pollerRec struct {
	entry    atomic.Int64 // seq of the current epoll_wait, 0 when not inside
	blocking atomic.Bool
	waits    atomic.Int64
	open     atomic.Bool
}

var pollers sync.Map // epfd -> *pollerRec

// waitRound[goroutine id] = number of epoll_wait calls that goroutine has returned from: the "batch" a
// loop goroutine is currently working on
var waitRound sync.Map // int64 -> *atomic.Int64

func goid() int64 {
	var buf [64]byte
	n := runtime.Stack(buf[:], false)
	var id int64
	for _, c := range buf[10:n] {
		if c < '0' || c > '9' {
			break
		}
		id = id*10 + int64(c-'0')
	}
	return id
}

func roundOfCaller() int64 {
	if v, ok := waitRound.Load(goid()); ok {
		return v.(*atomic.Int64).Load()
	}
	return -1
}

func pollerOf(epfd int) *pollerRec {
	if v, ok := pollers.Load(epfd); ok {
		return v.(*pollerRec)
	}
	v, _ := pollers.LoadOrStore(epfd, &pollerRec{})
	return v.(*pollerRec)
}

// Pollers returns the state of every open epoll descriptor.
func Pollers() []PollerState {
	var out []PollerState
	pollers.Range(func(k, v any) bool {
		p := v.(*pollerRec)
		if !p.open.Load() {
			return true
		}
		e := p.entry.Load()
		out = append(out, PollerState{Epfd: k.(int), InWait: e != 0, Blocking: p.blocking.Load(), EntrySeq: e, Waits: p.waits.Load()})
		return true
	})
	sort.Slice(out, func(i, j int) bool { return out[i].Epfd < out[j].Epfd })
	return out
}

// ---------------------------------------------------------------------------
// The shimmed calls
// ---------------------------------------------------------------------------

func isEfd(fd int) bool {
	s := sh(fd)
	s.mu.Lock()
	defer s.mu.Unlock()
	fi := s.m[fd]
	return fi != nil && fi.Class == "eventfd" && fi.State == stOwned
}

func Read(fd int, p []byte) (n int, err error) {
	Point(200)
	call := CRead
	if isEfd(fd) {
		call = CEfdRead
	}
	if r := consult(call, fd); r != nil {
		switch r.Action {
		case AErrno:
			touch("read", fd)
			return -1, r.Errno
		case AEagain:
			touch("read", fd)
			return -1, unix.EAGAIN
		case AShort:
			if r.Max > 0 && len(p) > r.Max {
				p = p[:r.Max]
			}
		case ADelay:
			spinSleep(r.Ns)
		}
	}
	s := sh(fd)
	s.mu.Lock()
	fi := useLocked(s, "read", fd)
	s.mu.Unlock()
	n, err = unix.Read(fd, p)
	if n > 0 {
		s.mu.Lock()
		if cur := s.m[fd]; cur == fi {
			fi.Rd += int64(n)
			fi.Reads++
		}
		s.mu.Unlock()
	}
	noteErr("read", fd, err)
	trace("%d read fd=%d len=%d -> %d %v", seq.Add(1), fd, len(p), n, err)
	return
}

func touch(op string, fd int) {
	s := sh(fd)
	s.mu.Lock()
	useLocked(s, op, fd)
	s.mu.Unlock()
}

func spinSleep(ns int64) {
	if ns <= 0 {
		return
	}
	if ns < 50000 {
		spin(ns)
		return
	}
	sleepNs(ns)
}

func Write(fd int, p []byte) (n int, err error) {
	Point(201)
	call := CWrite
	efd := isEfd(fd)
	if efd {
		call = CEfdWrite
	}
	if r := consult(call, fd); r != nil {
		switch r.Action {
		case AErrno:
			touch("write", fd)
			return -1, r.Errno
		case AEagain:
			touch("write", fd)
			return -1, unix.EAGAIN
		case AShort:
			if r.Max > 0 && len(p) > r.Max {
				p = p[:r.Max]
			}
		case ADelay:
			spinSleep(r.Ns)
		}
	}
	s := sh(fd)
	s.mu.Lock()
	fi := useLocked(s, "write", fd)
	s.mu.Unlock()
	n, err = unix.Write(fd, p)
	if n > 0 {
		if efd {
			EfdWrites.Add(1)
		}
		s.mu.Lock()
		if cur := s.m[fd]; cur == fi {
			fi.Wr += int64(n)
		}
		s.mu.Unlock()
	}
	noteErr("write", fd, err)
	trace("%d write fd=%d len=%d -> %d %v", seq.Add(1), fd, len(p), n, err)
	return
}

func Writev(fd int, iov [][]byte) (n int, err error) {
	Point(203)
	if r := consult(CWritev, fd); r != nil {
		switch r.Action {
		case AErrno:
			touch("writev", fd)
			return -1, r.Errno
		case AEagain:
			touch("writev", fd)
			return -1, unix.EAGAIN
		case AShort:
			if r.Max > 0 {
				// real short write: truncate the iovec list to Max bytes
				var cut [][]byte
				left := r.Max
				for _, b := range iov {
					if left <= 0 {
						break
					}
					if len(b) > left {
						b = b[:left]
					}
					cut = append(cut, b)
					left -= len(b)
				}
				if len(cut) > 0 {
					iov = cut
				}
			}
		case ADelay:
			spinSleep(r.Ns)
		}
	}
	s := sh(fd)
	s.mu.Lock()
	fi := useLocked(s, "writev", fd)
	s.mu.Unlock()
	n, err = unix.Writev(fd, iov)
	if n > 0 {
		s.mu.Lock()
		if cur := s.m[fd]; cur == fi {
			fi.Wr += int64(n)
		}
		s.mu.Unlock()
	}
	noteErr("writev", fd, err)
	trace("%d writev fd=%d segs=%d -> %d %v", seq.Add(1), fd, len(iov), n, err)
	return
}

func Readv(fd int, iov [][]byte) (int, error) {
	touch("readv", fd)
	n, err := unix.Readv(fd, iov)
	noteErr("readv", fd, err)
	return n, err
}

func Accept4(fd int, flags int) (nfd int, sa unix.Sockaddr, err error) {
	Point(204)
	if r := consult(CAccept, fd); r != nil {
		switch r.Action {
		case AErrno:
			touch("accept4", fd)
			return -1, nil, r.Errno
		case AEagain:
			touch("accept4", fd)
			return -1, nil, unix.EAGAIN
		case ADelay:
			spinSleep(r.Ns)
		}
	}
	touch("accept4", fd)
	// The creation is recorded under the global create lock so that a concurrent close of
	// the same number by somebody else cannot be ordered wrongly.
	createMu.Lock()
	nfd, sa, err = unix.Accept4(fd, flags)
	if err == nil {
		s := sh(nfd)
		s.mu.Lock()
		createdLocked(s, nfd, "accepted")
		s.mu.Unlock()
	}
	createMu.Unlock()
	noteErr("accept4", fd, err)
	trace("%d accept4 lfd=%d -> %d %v", seq.Add(1), fd, nfd, err)
	return
}

// createMu serialises descriptor creation and close inside the shim, so that the ledger
// order equals the kernel order. These calls never block.
var createMu sync.Mutex

func Close(fd int) (err error) {
	Point(205)
	var inj *Rule
	if r := consult(CClose, fd); r != nil {
		switch r.Action {
		case AErrno:
			inj = r
		case ADelay:
			spinSleep(r.Ns)
		}
	}
	if _, isForeign := foreign.Load(fd); isForeign {
		// the framework is about to close a descriptor that belongs to somebody else: report it and do NOT carry the
		// close out (the process would lose e.g. its standard input); the behaviour only differs once the violation exists
		s := sh(fd)
		s.mu.Lock()
		useLocked(s, "close", fd)
		s.mu.Unlock()
		return nil
	}
	if fd < 0 {
		return unix.Close(fd)
	}
	createMu.Lock()
	s := sh(fd)
	s.mu.Lock()
	fi := useLocked(s, "close", fd)
	fi.State = stReleased
	fi.CloseSite = site()
	fi.CloseRound = roundOfCaller()
	cls := fi.Class
	s.mu.Unlock()
	// Linux close(2) releases the descriptor even when it reports EINTR/EIO, so an
	// injected error still performs the real close.
	err = unix.Close(fd)
	createMu.Unlock()
	if cls == "epoll" {
		pollerOf(fd).open.Store(false)
	}
	noteErr("close", fd, err)
	if inj != nil && err == nil {
		err = inj.Errno
	}
	trace("%d close fd=%d class=%s -> %v", seq.Add(1), fd, cls, err)
	return
}

func EpollCreate1(flag int) (fd int, err error) {
	if r := consult(CEpollCreate, -1); r != nil && r.Action == AErrno {
		return -1, r.Errno
	}
	createMu.Lock()
	fd, err = unix.EpollCreate1(flag)
	if err == nil {
		s := sh(fd)
		s.mu.Lock()
		createdLocked(s, fd, "epoll")
		s.mu.Unlock()
		p := pollerOf(fd)
		p.entry.Store(0)
		p.waits.Store(0)
		p.open.Store(true)
	}
	createMu.Unlock()
	trace("%d epoll_create1 -> %d %v", seq.Add(1), fd, err)
	return
}

func Eventfd(initval uint, flags int) (fd int, err error) {
	if r := consult(CEventfd, -1); r != nil && r.Action == AErrno {
		return -1, r.Errno
	}
	createMu.Lock()
	fd, err = unix.Eventfd(initval, flags)
	if err == nil {
		s := sh(fd)
		s.mu.Lock()
		createdLocked(s, fd, "eventfd")
		s.mu.Unlock()
	}
	createMu.Unlock()
	trace("%d eventfd -> %d %v", seq.Add(1), fd, err)
	return
}

func Socket(domain, typ, proto int) (fd int, err error) {
	if r := consult(CSocket, -1); r != nil && r.Action == AErrno {
		return -1, r.Errno
	}
	createMu.Lock()
	fd, err = unix.Socket(domain, typ, proto)
	if err == nil {
		s := sh(fd)
		s.mu.Lock()
		createdLocked(s, fd, "socket")
		s.mu.Unlock()
	}
	createMu.Unlock()
	trace("%d socket -> %d %v", seq.Add(1), fd, err)
	return
}

func FcntlInt(fd uintptr, cmd, arg int) (r int, err error) {
	if cmd != unix.F_DUPFD_CLOEXEC && cmd != unix.F_DUPFD {
		return unix.FcntlInt(fd, cmd, arg)
	}
	if ru := consult(CDup, int(fd)); ru != nil && ru.Action == AErrno {
		return -1, ru.Errno
	}
	createMu.Lock()
	r, err = unix.FcntlInt(fd, cmd, arg)
	if err == nil {
		s := sh(r)
		s.mu.Lock()
		createdLocked(s, r, "dup")
		s.mu.Unlock()
	}
	createMu.Unlock()
	trace("%d dup fd=%d -> %d %v", seq.Add(1), int(fd), r, err)
	return
}

func epollCtlCommon(epfd, op, fd int, events uint32, do func() error) error {
	Point(206)
	call := CEpollAdd
	name := "epoll_ctl_add"
	switch op {
	case unix.EPOLL_CTL_MOD:
		call, name = CEpollMod, "epoll_ctl_mod"
	case unix.EPOLL_CTL_DEL:
		call, name = CEpollDel, "epoll_ctl_del"
	}
	if r := consult(call, fd); r != nil {
		switch r.Action {
		case AErrno:
			touch(name, fd)
			return r.Errno
		case ADelay:
			spinSleep(r.Ns)
		}
	}
	s := sh(fd)
	s.mu.Lock()
	fi := useLocked(s, name, fd)
	s.mu.Unlock()
	touch(name+"(epfd)", epfd)
	err := do()
	if err == nil {
		s.mu.Lock()
		if cur := s.m[fd]; cur == fi {
			switch op {
			case unix.EPOLL_CTL_ADD:
				fi.Registered = true
				fi.Events = events
			case unix.EPOLL_CTL_MOD:
				fi.Events = events
			case unix.EPOLL_CTL_DEL:
				fi.Events = 0
			}
		}
		s.mu.Unlock()
	}
	noteErr(name, fd, err)
	trace("%d %s epfd=%d fd=%d ev=%#x -> %v", seq.Add(1), name, epfd, fd, events, err)
	return err
}

func EpollCtl(epfd, op, fd int, ev *unix.EpollEvent) error {
	var events uint32
	if ev != nil {
		events = ev.Events
	}
	return epollCtlCommon(epfd, op, fd, events, func() error { return unix.EpollCtl(epfd, op, fd, ev) })
}

func epollWaitCommon(epfd int, msec int, do func() (int, error)) (int, error) {
	Point(202)
	if r := consult(CEpollWait, epfd); r != nil {
		switch r.Action {
		case AErrno:
			return -1, r.Errno
		case ADelay:
			spinSleep(r.Ns)
		}
	}
	p := pollerOf(epfd)
	p.blocking.Store(msec < 0)
	p.entry.Store(seq.Add(1))
	n, err := do()
	p.entry.Store(0)
	p.waits.Add(1)
	if n > 0 {
		g := goid()
		v, ok := waitRound.Load(g)
		if !ok {
			v, _ = waitRound.LoadOrStore(g, new(atomic.Int64))
		}
		v.(*atomic.Int64).Add(1)
	}
	if err == unix.EBADF {
		alarm("ebadf", "epoll_wait", epfd, "system call returned EBADF")
	}
	return n, err
}

func EpollWait(epfd int, evs []unix.EpollEvent, msec int) (int, error) {
	return epollWaitCommon(epfd, msec, func() (int, error) { return unix.EpollWait(epfd, evs, msec) })
}

func Recvfrom(fd int, p []byte, flags int) (n int, from unix.Sockaddr, err error) {
	if r := consult(CRecvfrom, fd); r != nil {
		switch r.Action {
		case AErrno:
			touch("recvfrom", fd)
			return -1, nil, r.Errno
		case AEagain:
			touch("recvfrom", fd)
			return -1, nil, unix.EAGAIN
		case ADelay:
			spinSleep(r.Ns)
		}
	}
	s := sh(fd)
	s.mu.Lock()
	fi := useLocked(s, "recvfrom", fd)
	s.mu.Unlock()
	n, from, err = unix.Recvfrom(fd, p, flags)
	if err == nil {
		s.mu.Lock()
		if cur := s.m[fd]; cur == fi {
			fi.Rd += int64(n)
			fi.Reads++
		}
		s.mu.Unlock()
	}
	noteErr("recvfrom", fd, err)
	trace("%d recvfrom fd=%d -> %d %v", seq.Add(1), fd, n, err)
	return
}

func Sendto(fd int, p []byte, flags int, to unix.Sockaddr) (err error) {
	if r := consult(CSendto, fd); r != nil {
		switch r.Action {
		case AErrno:
			touch("sendto", fd)
			return r.Errno
		case ADelay:
			spinSleep(r.Ns)
		}
	}
	s := sh(fd)
	s.mu.Lock()
	fi := useLocked(s, "sendto", fd)
	s.mu.Unlock()
	err = unix.Sendto(fd, p, flags, to)
	if err == nil {
		s.mu.Lock()
		if cur := s.m[fd]; cur == fi {
			fi.Wr += int64(len(p))
		}
		s.mu.Unlock()
	}
	noteErr("sendto", fd, err)
	trace("%d sendto fd=%d len=%d -> %v", seq.Add(1), fd, len(p), err)
	return
}

func Send(fd int, p []byte, flags int) (err error) {
	if r := consult(CSend, fd); r != nil {
		switch r.Action {
		case AErrno:
			touch("send", fd)
			return r.Errno
		case ADelay:
			spinSleep(r.Ns)
		}
	}
	s := sh(fd)
	s.mu.Lock()
	fi := useLocked(s, "send", fd)
	s.mu.Unlock()
	err = unix.Send(fd, p, flags)
	if err == nil {
		s.mu.Lock()
		if cur := s.m[fd]; cur == fi {
			fi.Wr += int64(len(p))
		}
		s.mu.Unlock()
	}
	noteErr("send", fd, err)
	trace("%d send fd=%d len=%d -> %v", seq.Add(1), fd, len(p), err)
	return
}

// RawSyscall6 / Syscall6 are used by the poll_opt poller for epoll_ctl and epoll_wait.
// The event argument arrives as a uintptr (that is the system-call ABI); reading the event mask through it is not a
// conversion checkptr can vouch for, so the instrumentation (-race implies it) is switched off for this function only.
//
//go:nocheckptr
func RawSyscall6(trap, a1, a2, a3, a4, a5, a6 uintptr) (r1, r2 uintptr, errno unix.Errno) {
	switch trap {
	case unix.SYS_EPOLL_CTL:
		var events uint32
		if a4 != 0 {
			events = *(*uint32)(unsafe.Pointer(a4)) //nolint:govet
		}
		err := epollCtlCommon(int(a1), int(a2), int(a3), events, func() error {
			var e unix.Errno
			r1, r2, e = unix.RawSyscall6(trap, a1, a2, a3, a4, a5, a6)
			if e != 0 {
				return e
			}
			return nil
		})
		if err != nil {
			return ^uintptr(0), 0, err.(unix.Errno)
		}
		return r1, r2, 0
	case unix.SYS_EPOLL_WAIT, unix.SYS_EPOLL_PWAIT:
		n, err := epollWaitCommon(int(a1), int(int32(a4)), func() (int, error) {
			x, _, e := unix.RawSyscall6(trap, a1, a2, a3, a4, a5, a6)
			if e != 0 {
				return int(x), e
			}
			return int(x), nil
		})
		if err != nil {
			return uintptr(n), 0, err.(unix.Errno)
		}
		return uintptr(n), 0, 0
	}
	return unix.RawSyscall6(trap, a1, a2, a3, a4, a5, a6)
}

func Syscall6(trap, a1, a2, a3, a4, a5, a6 uintptr) (r1, r2 uintptr, errno unix.Errno) {
	switch trap {
	case unix.SYS_EPOLL_WAIT, unix.SYS_EPOLL_PWAIT:
		n, err := epollWaitCommon(int(a1), int(int32(a4)), func() (int, error) {
			x, _, e := unix.Syscall6(trap, a1, a2, a3, a4, a5, a6)
			if e != 0 {
				return int(x), e
			}
			return int(x), nil
		})
		if err != nil {
			return uintptr(n), 0, err.(unix.Errno)
		}
		return uintptr(n), 0, 0
	}
	return unix.Syscall6(trap, a1, a2, a3, a4, a5, a6)
}
