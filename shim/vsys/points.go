//go:build verif

// Package vsys is the check-time runtime of the verification framework: yield points
// (delay injection), the system-call shim, the descriptor ledger and the fault plan.
// It is injected into the module through `go build -overlay`; it is never committed
// to the repository.
package vsys

import (
	"runtime"
	"strings"
	"sync"
	"sync/atomic"
	"time"
)

var (
	// Enabled switches yield points on. Off: Point is a single atomic load.
	Enabled atomic.Bool

	seed   atomic.Uint64
	hitCtr atomic.Uint64
	// Hits counts hits per point id.
	Hits [512]atomic.Uint64

	focusMu sync.Mutex
	focus   [4]focusRec // up to 4 focus points per iteration
	nfocus  atomic.Int32

	// density: a hit perturbs when mix()%density < 3
	density atomic.Uint64

	iterMu  sync.Mutex
	iterLog []uint16
	iterOn  atomic.Bool
)

type focusRec struct {
	id  int32
	nth atomic.Int64
	ns  int64
}

func init() { density.Store(16) }

// SetSeed seeds the perturbation hash.
func SetSeed(s uint64) { seed.Store(s) }

// SetDensity sets how often a point perturbs (3 out of d hits). d<3 means always.
func SetDensity(d uint64) {
	if d < 3 {
		d = 3
	}
	density.Store(d)
}

// ClearFocus removes all focus points.
func ClearFocus() { nfocus.Store(0) }

// AddFocus makes the nth next hit of point id sleep for ns nanoseconds.
func AddFocus(id int, nth int, ns int64) {
	focusMu.Lock()
	defer focusMu.Unlock()
	n := nfocus.Load()
	if int(n) >= len(focus) {
		return
	}
	focus[n].id = int32(id)
	focus[n].nth.Store(int64(nth))
	focus[n].ns = ns
	nfocus.Store(n + 1)
}

func mix(x uint64) uint64 {
	x += 0x9e3779b97f4a7c15
	x = (x ^ (x >> 30)) * 0xbf58476d1ce4e5b9
	x = (x ^ (x >> 27)) * 0x94d049bb133111eb
	return x ^ (x >> 31)
}

// Mix exposes the splitmix64 finaliser to harnesses.
func Mix(x uint64) uint64 { return mix(x) }

func spin(ns int64) {
	t0 := time.Now()
	for time.Since(t0) < time.Duration(ns) {
	}
}

// BeginIter starts recording the global order of point hits.
func BeginIter() {
	iterMu.Lock()
	iterLog = iterLog[:0]
	iterMu.Unlock()
	iterOn.Store(true)
}

// EndIter stops recording and returns a hash of the recorded point order and its length.
func EndIter() (sig uint64, n int) {
	iterOn.Store(false)
	iterMu.Lock()
	defer iterMu.Unlock()
	h := uint64(1469598103934665603)
	for _, id := range iterLog {
		h = (h ^ uint64(id)) * 1099511628211
	}
	return h, len(iterLog)
}

// IterLog returns a copy of the current iteration's point order.
func IterLog() []uint16 {
	iterMu.Lock()
	defer iterMu.Unlock()
	return append([]uint16(nil), iterLog...)
}

// Point is a yield point inserted by vinstr before an atomic / queue / syscall statement.
func Point(id int) {
	if !Enabled.Load() {
		return
	}
	if id < len(Hits) {
		Hits[id].Add(1)
	}
	if iterOn.Load() {
		iterMu.Lock()
		if len(iterLog) < 512 {
			iterLog = append(iterLog, uint16(id))
		}
		iterMu.Unlock()
	}
	if n := nfocus.Load(); n > 0 {
		for i := int32(0); i < n; i++ {
			f := &focus[i]
			if f.id == int32(id) {
				if f.nth.Add(-1) == 0 {
					time.Sleep(time.Duration(f.ns))
					return
				}
			}
		}
	}
	r := mix(seed.Load() ^ hitCtr.Add(1))
	switch r % density.Load() {
	case 0:
		runtime.Gosched()
	case 1:
		spin(int64(r>>8) % 20000)
	case 2:
		time.Sleep(time.Duration(int64(r>>8)%5000) * time.Nanosecond)
	}
}

// PointB is Point for use inside boolean expressions.
func PointB(id int) bool { Point(id); return true }

func sleepNs(ns int64) { time.Sleep(time.Duration(ns)) }

// PointsIn returns the ids of the yield points inserted into files whose path contains sub.
func PointsIn(sub string) []int {
	var out []int
	for i, d := range PointTable {
		if strings.Contains(d, sub) {
			out = append(out, i+1)
		}
	}
	return out
}
