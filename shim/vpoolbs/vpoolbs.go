//go:build verif

// Package vpoolbs interposes on the framework's own use of the byte-slice pool (vinstr -pool rewrites the
// callers): an in-situ ledger of memory ranges handed out by Get and not yet relinquished by Put.
package vpoolbs

import (
	"fmt"
	"runtime"
	"sort"
	"strings"
	"sync"
	"sync/atomic"
	"unsafe"

	bs "github.com/panjf2000/gnet/v2/pkg/pool/byteslice"
)

type ent struct {
	lo, hi uintptr
	site   string
	ref    []byte // keeps the memory alive: its address cannot be recycled by the GC while tracked
	seq    int64
}

var (
	// Enabled switches the ledger on.
	Enabled atomic.Bool
	mu      sync.Mutex
	out     []ent               // disjoint, sorted by lo
	inPool  = map[uintptr]ent{} // slices the framework returned and nobody obtained again through this wrapper, by start address
	seq     int64
	alarms  []string
	// Gets / Puts count calls; Tracked is the number of ranges currently tracked.
	Gets, Puts atomic.Int64
	bytesHeld  int64
)

const maxEntries = 60000
const maxBytes = 768 << 20

func site() string {
	var pcs [12]uintptr
	n := runtime.Callers(3, pcs[:])
	fr := runtime.CallersFrames(pcs[:n])
	var out []string
	for {
		f, more := fr.Next()
		fn := f.Function
		if fn != "" && !strings.Contains(fn, "/pkg/vpool") {
			if i := strings.LastIndex(fn, "/"); i >= 0 {
				fn = fn[i+1:]
			}
			out = append(out, fn)
			if len(out) == 2 {
				break
			}
		}
		if !more {
			break
		}
	}
	return strings.Join(out, "<-")
}

func rng(b []byte) (uintptr, uintptr) {
	p := uintptr(unsafe.Pointer(unsafe.SliceData(b)))
	return p, p + uintptr(cap(b))
}

// Get is byteslice.Get plus the ledger check.
func Get(n int) []byte {
	b := bs.Get(n)
	if !Enabled.Load() || cap(b) == 0 {
		return b
	}
	Gets.Add(1)
	lo, hi := rng(b)
	st := site()
	mu.Lock()
	dropInPool(lo, hi)
	i := sort.Search(len(out), func(i int) bool { return out[i].hi > lo })
	if i < len(out) && out[i].lo < hi {
		o := out[i]
		if len(alarms) < 50 {
			alarms = append(alarms, fmt.Sprintf("Get(%d) at %s returned [%#x,%#x) which overlaps [%#x,%#x) obtained at %s and not yet returned to the pool", n, st, lo, hi, o.lo, o.hi, o.site))
		}
		mu.Unlock()
		return b
	}
	seq++
	out = append(out, ent{})
	copy(out[i+1:], out[i:])
	out[i] = ent{lo, hi, st, b[:cap(b)], seq}
	bytesHeld += int64(hi - lo)
	if len(out) > maxEntries || bytesHeld > maxBytes {
		// stop tracking the oldest half (their memory may be recycled from now on, so their ranges must go too)
		cut := seq - int64(len(out)/2)
		kept := out[:0]
		bytesHeld = 0
		for _, e := range out {
			if e.seq > cut {
				kept = append(kept, e)
				bytesHeld += int64(e.hi - e.lo)
			}
		}
		for j := len(kept); j < len(out); j++ {
			out[j] = ent{}
		}
		out = kept
	}
	mu.Unlock()
	return b
}

// Put relinquishes the overlapped part of tracked ranges, then calls byteslice.Put.
func Put(b []byte) {
	if Enabled.Load() && cap(b) > 0 {
		Puts.Add(1)
		lo, hi := rng(b)
		mu.Lock()
		// out is sorted by lo and disjoint: the overlapped entries form one contiguous run [i,j)
		i := sort.Search(len(out), func(i int) bool { return out[i].hi > lo })
		j := i
		var repl []ent
		for j < len(out) && out[j].lo < hi {
			e := out[j]
			bytesHeld -= int64(e.hi - e.lo)
			if e.lo < lo {
				repl = append(repl, ent{e.lo, lo, e.site, e.ref, e.seq})
				bytesHeld += int64(lo - e.lo)
			}
			if e.hi > hi {
				repl = append(repl, ent{hi, e.hi, e.site, e.ref, e.seq})
				bytesHeld += int64(e.hi - hi)
			}
			j++
		}
		if k, r := j-i, len(repl); k > 0 {
			if r <= k { // in place: the run shrinks (or keeps its length)
				copy(out[i:], repl)
				n := copy(out[i+r:], out[j:])
				for z := i + r + n; z < len(out); z++ {
					out[z] = ent{}
				}
				out = out[:i+r+n]
			} else { // one entry split in the middle: it becomes two
				out = append(out, ent{})
				copy(out[j+1:], out[j:])
				copy(out[i:], repl)
			}
		}
		// returned twice: the range is already in the pool (nobody obtained it again in between), so two later Gets
		// would be handed the same memory
		st := site()
		if e, ok := inPool[lo]; ok && len(alarms) < 50 {
			alarms = append(alarms, fmt.Sprintf("double-put: Put at %s returns [%#x,%#x) which was already returned at %s and has not been handed out since", st, lo, hi, e.site))
		}
		seq++
		inPool[lo] = ent{lo, hi, st, b[:cap(b)], seq}
		if len(inPool) > maxEntries/2 {
			// forget the older half
			cut := seq - int64(len(inPool)/2)
			for k, e := range inPool {
				if e.seq <= cut {
					delete(inPool, k)
				}
			}
		}
		mu.Unlock()
	}
	bs.Put(b)
}

// dropInPool forgets the returned slice that starts at lo: that memory is handed out again. Caller holds mu.
func dropInPool(lo, _ uintptr) {
	delete(inPool, lo)
}

// Alarms returns and clears the alarms.
func Alarms() []string {
	mu.Lock()
	defer mu.Unlock()
	a := alarms
	alarms = nil
	return a
}

// Reset forgets everything.
func Reset() {
	mu.Lock()
	out, inPool, alarms, bytesHeld = nil, map[uintptr]ent{}, nil, 0
	mu.Unlock()
}

// Tracked returns the number of ranges currently tracked.
func Tracked() int {
	mu.Lock()
	defer mu.Unlock()
	return len(out)
}
