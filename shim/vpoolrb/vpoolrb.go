//go:build verif

// Package vpoolrb interposes on the framework's use of the ring-buffer pool: a ring handed out by Get must
// not be held by anybody else and must be empty.
package vpoolrb

import (
	"fmt"
	"sync"
	"sync/atomic"

	"github.com/panjf2000/gnet/v2/pkg/buffer/ring"
	rb "github.com/panjf2000/gnet/v2/pkg/pool/ringbuffer"
)

var (
	Enabled atomic.Bool
	mu      sync.Mutex
	out     = map[*ring.Buffer]int64{}
	seq     int64
	alarms  []string
	Gets    atomic.Int64
)

// Get is ringbuffer.Get plus the ledger check.
func Get() *ring.Buffer {
	b := rb.Get()
	if !Enabled.Load() {
		return b
	}
	Gets.Add(1)
	mu.Lock()
	if s, ok := out[b]; ok && len(alarms) < 50 {
		alarms = append(alarms, fmt.Sprintf("ringbuffer.Get returned ring %p which is still held (handed out as #%d and not returned)", b, s))
	}
	if (!b.IsEmpty() || b.Buffered() != 0) && len(alarms) < 50 {
		alarms = append(alarms, fmt.Sprintf("ringbuffer.Get returned a ring holding %d bytes of a previous holder", b.Buffered()))
	}
	seq++
	out[b] = seq
	if len(out) > 200000 {
		out = map[*ring.Buffer]int64{b: seq}
	}
	mu.Unlock()
	return b
}

// Put forgets the ring and returns it to the pool.
func Put(b *ring.Buffer) {
	if Enabled.Load() {
		mu.Lock()
		delete(out, b)
		mu.Unlock()
	}
	rb.Put(b)
}

// Alarms returns and clears the alarms.
func Alarms() []string {
	mu.Lock()
	defer mu.Unlock()
	a := alarms
	alarms = nil
	return a
}
