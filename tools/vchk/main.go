package main

import (
	"bufio"
	"encoding/json"
	"fmt"
	"os"
	"time"

	"github.com/anishathalye/porcupine"
)

type Op struct {
	C    int   `json:"c"`
	Enq  bool  `json:"e"`
	V    int   `json:"v"`
	Call int64 `json:"t0"`
	Ret  int64 `json:"t1"`
}
type in struct {
	Enq bool
	V   int
}

func main() {
	m := porcupine.Model{
		Init: func() interface{} { return []int{} },
		Step: func(st, i, o interface{}) (bool, interface{}) {
			s := st.([]int)
			e := i.(in)
			if e.Enq {
				ns := append(append([]int{}, s...), e.V)
				return true, ns
			}
			out := o.(int)
			if len(s) == 0 {
				return out == -1, s
			}
			return out == s[0], s[1:]
		},
		Equal: func(a, b interface{}) bool {
			x, y := a.([]int), b.([]int)
			if len(x) != len(y) {
				return false
			}
			for i := range x {
				if x[i] != y[i] {
					return false
				}
			}
			return true
		},
	}
	f, _ := os.Open(os.Args[1])
	sc := bufio.NewScanner(f)
	sc.Buffer(make([]byte, 1<<20), 1<<24)
	ok, bad, unk := 0, 0, 0
	t0 := time.Now()
	var worst time.Duration
	for sc.Scan() {
		var ops []Op
		json.Unmarshal(sc.Bytes(), &ops)
		var pops []porcupine.Operation
		for _, o := range ops {
			pops = append(pops, porcupine.Operation{ClientId: o.C, Input: in{o.Enq, o.V}, Call: o.Call, Output: o.V, Return: o.Ret})
		}
		t1 := time.Now()
		r := porcupine.CheckOperationsTimeout(m, pops, 5*time.Second)
		if d := time.Since(t1); d > worst {
			worst = d
		}
		switch r {
		case porcupine.Ok:
			ok++
		case porcupine.Illegal:
			bad++
			if bad <= 2 {
				fmt.Println("ILLEGAL:", string(sc.Bytes()))
			}
		default:
			unk++
		}
	}
	fmt.Printf("ok=%d illegal=%d unknown=%d in %v (worst %v)\n", ok, bad, unk, time.Since(t0), worst)
}
