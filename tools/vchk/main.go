// vchk: offline checkers that need third-party modules (porcupine). It does not depend on gnet;
// harnesses write histories as JSON lines and read the verdicts back.
//
//	vchk queue <histories.jsonl> <out.json>   linearizability of FIFO-queue histories
package main

import (
	"bufio"
	"encoding/json"
	"fmt"
	"os"
	"sync"
	"time"

	"github.com/anishathalye/porcupine"
)

// Op is one completed queue operation. V: value enqueued / dequeued (-1 = "empty").
type Op struct {
	C    int   `json:"c"`
	Enq  bool  `json:"e"`
	V    int   `json:"v"`
	Call int64 `json:"t0"`
	Ret  int64 `json:"t1"`
}

type in struct {
	Enq bool
	V   int
}

type verdict struct {
	Ok       int      `json:"ok"`
	Illegal  int      `json:"illegal"`
	Unknown  int      `json:"unknown"`
	Ops      int      `json:"ops"`
	WorstMs  float64  `json:"worst_ms"`
	IllegalH []string `json:"illegal_histories"`
	IllegalI []int    `json:"illegal_indexes"`
	UnknownI []int    `json:"unknown_indexes"`
}

func queueModel() porcupine.Model {
	return porcupine.Model{
		Init: func() interface{} { return []int{} },
		Step: func(st, i, o interface{}) (bool, interface{}) {
			s := st.([]int)
			e := i.(in)
			if e.Enq {
				ns := append(append([]int{}, s...), e.V)
				return true, ns
			}
			out := o.(int)
			if len(s) == 0 {
				return out == -1, s
			}
			return out == s[0], s[1:]
		},
		Equal: func(a, b interface{}) bool {
			x, y := a.([]int), b.([]int)
			if len(x) != len(y) {
				return false
			}
			for i := range x {
				if x[i] != y[i] {
					return false
				}
			}
			return true
		},
	}
}

func main() {
	if len(os.Args) < 4 || os.Args[1] != "queue" {
		fmt.Fprintln(os.Stderr, "usage: vchk queue <histories.jsonl> <out.json>")
		os.Exit(2)
	}
	f, err := os.Open(os.Args[2])
	if err != nil {
		fmt.Fprintln(os.Stderr, err)
		os.Exit(2)
	}
	sc := bufio.NewScanner(f)
	sc.Buffer(make([]byte, 1<<20), 1<<26)
	var lines []string
	for sc.Scan() {
		lines = append(lines, sc.Text())
	}
	m := queueModel()
	var mu sync.Mutex
	var v verdict
	var wg sync.WaitGroup
	jobs := make(chan int, 1024)
	for w := 0; w < 16; w++ {
		wg.Add(1)
		go func() {
			defer wg.Done()
			for idx := range jobs {
				var ops []Op
				if err := json.Unmarshal([]byte(lines[idx]), &ops); err != nil {
					continue
				}
				var pops []porcupine.Operation
				for _, o := range ops {
					pops = append(pops, porcupine.Operation{ClientId: o.C, Input: in{o.Enq, o.V}, Call: o.Call, Output: o.V, Return: o.Ret})
				}
				t1 := time.Now()
				r := porcupine.CheckOperationsTimeout(m, pops, 10*time.Second)
				d := time.Since(t1)
				mu.Lock()
				v.Ops += len(ops)
				if ms := float64(d.Microseconds()) / 1000; ms > v.WorstMs {
					v.WorstMs = ms
				}
				switch r {
				case porcupine.Ok:
					v.Ok++
				case porcupine.Illegal:
					v.Illegal++
					v.IllegalI = append(v.IllegalI, idx)
					if len(v.IllegalH) < 5 {
						v.IllegalH = append(v.IllegalH, lines[idx])
					}
				default:
					v.Unknown++
					v.UnknownI = append(v.UnknownI, idx)
				}
				mu.Unlock()
			}
		}()
	}
	for i := range lines {
		jobs <- i
	}
	close(jobs)
	wg.Wait()
	b, _ := json.Marshal(v)
	if err := os.WriteFile(os.Args[3], b, 0o644); err != nil {
		fmt.Fprintln(os.Stderr, err)
		os.Exit(2)
	}
}
