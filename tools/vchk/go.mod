module vchk
go 1.20
require github.com/anishathalye/porcupine v1.3.0
