module vinstr
go 1.20
