package main

// vinstr rewrites the CURRENT sources of the repository into a scratch directory and emits a
// go-build overlay that (a) replaces them, (b) injects pkg/vsys, the export files and the harnesses.
// Nothing is written into the repository.
import (
	"bytes"
	"encoding/json"
	"flag"
	"fmt"
	"go/ast"
	"go/parser"
	"go/printer"
	"go/token"
	"os"
	"path/filepath"
	"sort"
	"strconv"
	"strings"
)

var shimFuncs = map[string]bool{"Read": true, "Write": true, "Writev": true, "Readv": true, "Accept4": true, "Close": true,
	"EpollCreate1": true, "Eventfd": true, "EpollCtl": true, "EpollWait": true, "Recvfrom": true, "Sendto": true, "Send": true,
	"Socket": true, "FcntlInt": true, "RawSyscall6": true, "Syscall6": true}

const vsysPath = "github.com/panjf2000/gnet/v2/pkg/vsys"

var pointID int
var pointTable []string

func main() {
	var (
		repo   = flag.String("repo", "/repo", "repository root (current working tree)")
		out    = flag.String("out", "", "scratch output directory")
		verif  = flag.String("verif", "/verif", "framework root")
		shim   = flag.Bool("shim", false, "redirect unix.* calls of the I/O path to pkg/vsys")
		points = flag.Bool("points", false, "insert yield points into the queue and poller files")
		pool   = flag.Bool("pool", false, "redirect byteslice/ringbuffer pool calls of the framework to pkg/vsys wrappers")
	)
	flag.Parse()
	if *out == "" {
		fmt.Fprintln(os.Stderr, "vinstr: -out required")
		os.Exit(2)
	}
	overlay := map[string]string{}
	shimDirs := []string{".", "pkg/netpoll", "pkg/io", "pkg/socket"}
	pointFiles := map[string]bool{"pkg/queue/lock_free_queue.go": true, "pkg/netpoll/poller_epoll_default.go": true, "pkg/netpoll/poller_epoll_ultimate.go": true}
	poolDirs := []string{".", "pkg/buffer/ring", "pkg/buffer/linkedlist", "pkg/buffer/elastic", "pkg/socket"}
	files := map[string]bool{}
	addDir := func(d string) {
		ents, _ := os.ReadDir(filepath.Join(*repo, d))
		for _, e := range ents {
			n := e.Name()
			if strings.HasSuffix(n, ".go") && !strings.HasSuffix(n, "_test.go") && !strings.HasPrefix(n, "zz_verif") {
				files[filepath.Join(d, n)] = true
			}
		}
	}
	if *shim {
		for _, d := range shimDirs {
			addDir(d)
		}
	}
	if *pool {
		for _, d := range poolDirs {
			addDir(d)
		}
	}
	if *points {
		for f := range pointFiles {
			if _, err := os.Stat(filepath.Join(*repo, f)); err == nil {
				files[f] = true
			}
		}
	}
	inDirs := func(rel string, dirs []string) bool {
		for _, d := range dirs {
			if filepath.Dir(rel) == filepath.Clean(d) {
				return true
			}
		}
		return false
	}
	rels := make([]string, 0, len(files))
	for rel := range files {
		rels = append(rels, rel)
	}
	sort.Strings(rels)
	nshim, npool := 0, 0
	for _, rel := range rels {
		src := filepath.Join(*repo, rel)
		fset := token.NewFileSet()
		af, err := parser.ParseFile(fset, src, nil, parser.ParseComments)
		if err != nil {
			fmt.Fprintln(os.Stderr, "vinstr: parse", rel, err)
			os.Exit(2)
		}
		changed := false
		unixName := importName(af, "golang.org/x/sys/unix", "unix")
		if *shim && unixName != "" && inDirs(rel, shimDirs) {
			ast.Inspect(af, func(n ast.Node) bool {
				ce, ok := n.(*ast.CallExpr)
				if !ok {
					return true
				}
				se, ok := ce.Fun.(*ast.SelectorExpr)
				if !ok {
					return true
				}
				id, ok := se.X.(*ast.Ident)
				if ok && id.Name == unixName && id.Obj == nil && shimFuncs[se.Sel.Name] {
					id.Name = "vsys"
					changed = true
					nshim++
				}
				return true
			})
		}
		if *pool && inDirs(rel, poolDirs) {
			bsName := importName(af, "github.com/panjf2000/gnet/v2/pkg/pool/byteslice", "byteslice")
			rbName := importName(af, "github.com/panjf2000/gnet/v2/pkg/pool/ringbuffer", "ringbuffer")
			usedBS, usedRB := false, false
			ast.Inspect(af, func(n ast.Node) bool {
				ce, ok := n.(*ast.CallExpr)
				if !ok {
					return true
				}
				se, ok := ce.Fun.(*ast.SelectorExpr)
				if !ok {
					return true
				}
				id, ok := se.X.(*ast.Ident)
				if !ok || id.Obj != nil || (se.Sel.Name != "Get" && se.Sel.Name != "Put") {
					return true
				}
				if bsName != "" && id.Name == bsName {
					id.Name = "vpoolbs"
					usedBS = true
					changed = true
					npool++
				} else if rbName != "" && id.Name == rbName {
					id.Name = "vpoolrb"
					usedRB = true
					changed = true
					npool++
				}
				return true
			})
			if usedBS {
				addImport(af, "github.com/panjf2000/gnet/v2/pkg/vpoolbs")
			}
			if usedRB {
				addImport(af, "github.com/panjf2000/gnet/v2/pkg/vpoolrb")
			}
			if bsName != "" && !usesIdent(af, bsName) {
				removeImport(af, "github.com/panjf2000/gnet/v2/pkg/pool/byteslice")
			}
			if rbName != "" && !usesIdent(af, rbName) {
				removeImport(af, "github.com/panjf2000/gnet/v2/pkg/pool/ringbuffer")
			}
		}
		if *points && pointFiles[rel] {
			instrumentPoints(fset, af, rel)
			changed = true
		}
		if !changed {
			continue
		}
		if usesIdent(af, "vsys") {
			addImport(af, vsysPath)
		}
		if unixName != "" && !usesIdent(af, unixName) {
			removeImport(af, "golang.org/x/sys/unix")
		}
		var buf bytes.Buffer
		if err := printer.Fprint(&buf, fset, af); err != nil {
			panic(err)
		}
		dst := filepath.Join(*out, "src", rel)
		os.MkdirAll(filepath.Dir(dst), 0o755)
		os.WriteFile(dst, buf.Bytes(), 0o644)
		overlay[src] = dst
	}
	// injected packages
	addTree := func(from, to string) {
		filepath.Walk(from, func(p string, info os.FileInfo, err error) error {
			if err == nil && !info.IsDir() && strings.HasSuffix(p, ".go") {
				rel, _ := filepath.Rel(from, p)
				overlay[filepath.Join(*repo, to, rel)] = p
			}
			return nil
		})
	}
	addTree(filepath.Join(*verif, "shim/vsys"), "pkg/vsys")
	addTree(filepath.Join(*verif, "shim/vpoolbs"), "pkg/vpoolbs")
	addTree(filepath.Join(*verif, "shim/vpoolrb"), "pkg/vpoolrb")
	addTree(filepath.Join(*verif, "harness"), "zzverif")
	addTree(filepath.Join(*verif, "export/gnet"), ".")
	addTree(filepath.Join(*verif, "export/byteslice"), "pkg/pool/byteslice")
	addTree(filepath.Join(*verif, "export/ringbuffer"), "pkg/pool/ringbuffer")
	addTree(filepath.Join(*verif, "export/queue"), "pkg/queue")
	addTree(filepath.Join(*verif, "export/ring"), "pkg/buffer/ring")
	// flavour file
	fl := fmt.Sprintf("//go:build verif\n\npackage vsys\n\n// Flavour of this build (generated by vinstr).\nconst (\n\tShimmed = %v\n\tPointed = %v\n\tPooled  = %v\n)\n\n// PointTable[i-1] describes yield point i: \"id file:line:col kind\".\nvar PointTable = []string{\n", *shim, *points, *pool)
	for _, p := range pointTable {
		fl += "\t" + strconv.Quote(p) + ",\n"
	}
	fl += "}\n"
	flp := filepath.Join(*out, "zz_flavour.go")
	os.MkdirAll(*out, 0o755)
	os.WriteFile(flp, []byte(fl), 0o644)
	overlay[filepath.Join(*repo, "pkg/vsys/zz_flavour.go")] = flp
	b, _ := json.MarshalIndent(map[string]any{"Replace": overlay}, "", " ")
	os.WriteFile(filepath.Join(*out, "overlay.json"), b, 0o644)
	pt, _ := json.MarshalIndent(pointTable, "", " ")
	os.WriteFile(filepath.Join(*out, "points.json"), pt, 0o644)
	fmt.Printf("vinstr: overlay files=%d rewritten_calls=%d pool_calls=%d points=%d\n", len(overlay), nshim, npool, pointID)
}

func importName(af *ast.File, path, def string) string {
	for _, im := range af.Imports {
		p, _ := strconv.Unquote(im.Path.Value)
		if p == path {
			if im.Name != nil {
				return im.Name.Name
			}
			return def
		}
	}
	return ""
}

func usesIdent(af *ast.File, name string) bool {
	used := false
	ast.Inspect(af, func(n ast.Node) bool {
		if se, ok := n.(*ast.SelectorExpr); ok {
			if id, ok := se.X.(*ast.Ident); ok && id.Name == name {
				used = true
			}
		}
		return true
	})
	return used
}

func addImport(af *ast.File, path string) {
	for _, im := range af.Imports {
		if im.Path.Value == strconv.Quote(path) {
			return
		}
	}
	spec := &ast.ImportSpec{Path: &ast.BasicLit{Kind: token.STRING, Value: strconv.Quote(path)}}
	for _, d := range af.Decls {
		if gd, ok := d.(*ast.GenDecl); ok && gd.Tok == token.IMPORT {
			gd.Specs = append(gd.Specs, spec)
			if !gd.Lparen.IsValid() {
				gd.Lparen = gd.Pos()
			}
			af.Imports = append(af.Imports, spec)
			return
		}
	}
	gd := &ast.GenDecl{Tok: token.IMPORT, Specs: []ast.Spec{spec}}
	af.Decls = append([]ast.Decl{gd}, af.Decls...)
	af.Imports = append(af.Imports, spec)
}

func removeImport(af *ast.File, path string) {
	for _, d := range af.Decls {
		if gd, ok := d.(*ast.GenDecl); ok && gd.Tok == token.IMPORT {
			var keep []ast.Spec
			for _, s := range gd.Specs {
				if s.(*ast.ImportSpec).Path.Value != strconv.Quote(path) {
					keep = append(keep, s)
				}
			}
			gd.Specs = keep
		}
	}
}

var pointCalls = map[string]bool{"load": true, "cas": true}
var pointMethods = map[string]bool{"Enqueue": true, "Dequeue": true, "IsEmpty": true, "Length": true}

func isInterestingCall(ce *ast.CallExpr) bool {
	switch f := ce.Fun.(type) {
	case *ast.Ident:
		return pointCalls[f.Name]
	case *ast.SelectorExpr:
		if id, ok := f.X.(*ast.Ident); ok && (id.Name == "atomic" || id.Name == "vsys" || id.Name == "unix") {
			return f.Sel.Name != "Point" && f.Sel.Name != "PointB"
		}
		return pointMethods[f.Sel.Name]
	}
	return false
}

func interesting(n ast.Node) bool {
	found := false
	ast.Inspect(n, func(x ast.Node) bool {
		if _, ok := x.(*ast.FuncLit); ok {
			return false
		}
		if _, ok := x.(*ast.BlockStmt); ok && x != n {
			return false
		}
		if ce, ok := x.(*ast.CallExpr); ok && isInterestingCall(ce) {
			found = true
		}
		return true
	})
	return found
}

func headOnly(s ast.Stmt) ast.Node {
	switch t := s.(type) {
	case *ast.IfStmt:
		return &ast.ExprStmt{X: t.Cond}
	case *ast.ForStmt:
		if t.Cond != nil {
			return &ast.ExprStmt{X: t.Cond}
		}
		return &ast.EmptyStmt{}
	case *ast.BlockStmt, *ast.SwitchStmt, *ast.TypeSwitchStmt, *ast.SelectStmt, *ast.RangeStmt, *ast.LabeledStmt:
		return &ast.EmptyStmt{}
	}
	return s
}

func newID(fset *token.FileSet, rel string, pos token.Pos, what string) *ast.BasicLit {
	pointID++
	p := fset.Position(pos)
	pointTable = append(pointTable, fmt.Sprintf("%d %s:%d:%d %s", pointID, rel, p.Line, p.Column, what))
	return &ast.BasicLit{Kind: token.INT, Value: strconv.Itoa(pointID)}
}

func mkPoint(fset *token.FileSet, rel string, pos token.Pos, of ast.Node) ast.Stmt {
	return &ast.ExprStmt{X: &ast.CallExpr{Fun: &ast.SelectorExpr{X: ast.NewIdent("vsys"), Sel: ast.NewIdent("Point")},
		Args: []ast.Expr{newID(fset, rel, pos, "stmt "+nodeText(fset, of))}}}
}

// nodeText renders the head of a statement on one line (for the point table: harnesses look points up by it).
func nodeText(fset *token.FileSet, n ast.Node) string {
	var b bytes.Buffer
	if err := printer.Fprint(&b, fset, headOnly2(n)); err != nil {
		return ""
	}
	t := strings.Join(strings.Fields(b.String()), " ")
	if len(t) > 90 {
		t = t[:90]
	}
	return strings.ReplaceAll(t, "\"", "'")
}

func headOnly2(n ast.Node) ast.Node {
	if s, ok := n.(ast.Stmt); ok {
		return headOnly(s)
	}
	return n
}

// wrapCond rewrites boolean operands that are interesting calls into (vsys.PointB(id) && call)
func wrapCond(fset *token.FileSet, rel string, e ast.Expr) ast.Expr {
	switch t := e.(type) {
	case *ast.BinaryExpr:
		if t.Op == token.LAND || t.Op == token.LOR {
			t.X = wrapCond(fset, rel, t.X)
			t.Y = wrapCond(fset, rel, t.Y)
		}
		return t
	case *ast.ParenExpr:
		t.X = wrapCond(fset, rel, t.X)
		return t
	case *ast.UnaryExpr:
		if t.Op == token.NOT {
			t.X = wrapCond(fset, rel, t.X)
		}
		return t
	case *ast.CallExpr:
		if isInterestingCall(t) {
			pb := &ast.CallExpr{Fun: &ast.SelectorExpr{X: ast.NewIdent("vsys"), Sel: ast.NewIdent("PointB")},
				Args: []ast.Expr{newID(fset, rel, t.Pos(), "cond "+nodeText(fset, t))}}
			return &ast.ParenExpr{X: &ast.BinaryExpr{X: pb, Op: token.LAND, Y: t}}
		}
	}
	return e
}

func compound(e ast.Expr) bool {
	switch t := e.(type) {
	case *ast.BinaryExpr:
		return t.Op == token.LAND || t.Op == token.LOR
	case *ast.ParenExpr:
		return compound(t.X)
	}
	return false
}

func instrumentList(fset *token.FileSet, rel string, list []ast.Stmt) []ast.Stmt {
	var out []ast.Stmt
	for _, s := range list {
		if ls, ok := s.(*ast.LabeledStmt); ok {
			inner := ls.Stmt
			if interesting(headOnly(inner)) {
				ls.Stmt = mkPoint(fset, rel, inner.Pos(), inner)
				out = append(out, ls, inner)
				continue
			}
		}
		if is, ok := s.(*ast.IfStmt); ok && is.Init == nil && compound(is.Cond) && interesting(headOnly(s)) {
			is.Cond = wrapCond(fset, rel, is.Cond)
			out = append(out, s)
			continue
		}
		if interesting(headOnly(s)) {
			out = append(out, mkPoint(fset, rel, s.Pos(), s))
		}
		out = append(out, s)
	}
	return out
}

func instrumentPoints(fset *token.FileSet, af *ast.File, rel string) {
	ast.Inspect(af, func(n ast.Node) bool {
		switch t := n.(type) {
		case *ast.BlockStmt:
			t.List = instrumentList(fset, rel, t.List)
		case *ast.CaseClause:
			t.Body = instrumentList(fset, rel, t.Body)
		case *ast.CommClause:
			t.Body = instrumentList(fset, rel, t.Body)
		}
		return true
	})
}
